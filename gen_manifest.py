#!/usr/bin/env python3
"""Regenerates MANIFEST.json from the table below (kept as code so that it stays valid and complete)."""
import json, subprocess, os

ALL = ["C%02d" % i for i in range(1, 25)]

CHECKS = {
 "C01": dict(level="exploration", technique="panic/abort/exit-status monitor + logical token budget around the real scanner/parser/compiler; bounded-exhaustive short texts enumerated in-process, fuzzed texts, real-binary confirmation; thorough tier (and quick tier when `unsafe` appears in /repo/src): the same corpus under an AddressSanitizer build of the probe and a 48-case Miri slice",
             text="Every text of the enumerated sub-spaces (all strings over a 32-character alphabet up to length 3/4, all sequences over a 70-token vocabulary up to length 3/4) and 4e4-7e5 fuzzed texts were pushed through the real front end under a panic monitor and a progress budget; held on everything observed. Exploration, not proof: texts outside the enumerated spaces are only sampled.",
             note="Trusted: the probe's catch_unwind/panic hook, the worker exit status, the token-budget hook (guarded) and the real binary's exit status for confirmation. Non-termination is restated as bounded progress (20 s for texts <= 4000 chars).",
             design="6/C01"),
 "C03": dict(level="exploration", technique="differential monitor: every expression tree rendered minimally from the documented table vs fully parenthesised, run through the real parser/compiler/VM; parsed trees, results and a direct Python evaluation compared",
             text="All ordered pairs (quick) / triples (thorough) of the 18 binary operators in every nesting shape, prefix and postfix operators over and under every binary operator, assignment chains, plus random trees to depth 4 were parsed and evaluated by the real implementation in both renderings; held on everything observed. The operator-pair space is enumerated completely, deeper shapes are sampled.",
             note="Trusted: the transcription of docs/language/expression-precedence.md into the renderer, the operator model of C09 for the direct evaluation.",
             design="6/C03"),
 "C06": dict(level="exploration", technique="table oracle over observed values: 25 representative values in every truthiness position (!, if, while, filter pattern, && and || against all right operands with an evaluation-count probe), enumerated completely",
             text="The finite representative space (25 values x 5 positions x 25 right operands, plus the filter-pattern position through the real binary in both build profiles) is enumerated completely on every run; held on everything observed.",
             note="Trusted: the truthiness table transcribed from the property statement; representatives stand for their kinds.",
             design="6/C06"),
 "C09": dict(level="exploration", technique="reference-model monitor: one operator application per VM execution, result/runtime error/panic compared with a Python model of the operator semantics over boundary-value tables and random operands",
             text="Every operator x ordered pair of ~75 boundary values over 10 kinds, every unary operator, and 2e4-3e5 random operand pairs were executed by the real compiler+VM and compared with the model; held on everything observed. Corners the statement leaves open are counted, not judged.",
             note="Trusted: opmodel.py (i64/u8 wrap-around, IEEE via Python floats, lexicographic string/char order). Byte vs integer ordering/equality, bitwise on bytes, integer*string and float division by zero are treated as unspecified.",
             design="6/C09"),
 "C10": dict(level="exploration", technique="history checker: map operation histories with unique written values run on the real VM, replayed offline over an association list keyed by the implementation's own == (evaluated in the same run)",
             text="All ordered key pairs from a 50-key domain (every key kind, 1/1.0, 0.0/-0.0, nested arrays) through literal/index/get/contains/insert/len plus 1.5e3-6e4 random histories were executed and replayed; held on everything observed apart from the recorded finding KF-C10-1.",
             note="Trusted: the 15-line association-list replay; the equalities the statement names (1==1.0, 0.0==-0.0, element-wise arrays) are checked separately against the C09 model.",
             design="6/C10"),
 "C11": dict(level="exploration", technique="contract monitor: every pure builtin x arity x argument kinds executed on the real VM, result / runtime-error text / mutated argument compared with a contract table transcribed from the documentation; round-trip laws on random values",
             text="23 builtins x arities 0..4 x a 110-value pool (all values for arity 1, sampled tuples beyond) plus the int/str, float/str, utf8, chars/join laws and sort/round on random values; held on everything observed apart from KF-C11-1.",
             note="Trusted: the contract table (DESIGN.md appendix A); whatever the documentation does not determine is counted as unspecified, not judged.",
             design="6/C11"),
 "C12": dict(level="exploration", technique="reference-renderer monitor: grammar-derived format strings and argument lists through format/print/println/eprint/eprintln; returned string, captured stream bytes and returned length compared with a 40-line reference renderer; end-to-end runs of the real binary",
             text="1.2e4-1.5e5 generated format calls (index, fill, alignment, width, radix, escapes, missing arguments) in-process plus 150-1500 end-to-end runs in both build profiles; held on everything observed.",
             note="Trusted: the reference renderer; arguments restricted to kinds whose display is documented; fills that are also type letters or braces are excluded.",
             design="6/C12"),
 "C02": dict(level="exploration", technique="differential monitor against a definitional evaluator: random programs compiled and run by the real compiler+VM, observation sequence / final value / error status compared; ill-formed one-fault variants must be rejected",
             text="4e3-1.5e5 random programs over the whole construct list, targeted evaluation-order programs (side-effecting probes in every operand, argument, element and key position, < <= and assignment included) and one-fault ill-formed variants; held on everything observed. Programs whose evaluation reaches an unspecified corner are discarded and counted.",
             note="Trusted: gen.py's definitional evaluator (scopes, capture by value, operator model of C09, truthiness of C06) and the generator's static well-formedness check.",
             design="6/C02"),
 "C08": dict(level="exploration", technique="crash monitor: panic hook + catch_unwind + worker exit status in-process, exit status / stderr of the real binary (dev and release); every in-process hit is confirmed on the real binary; thorough tier (and quick tier when `unsafe` appears in /repo/src): the same corpus under an AddressSanitizer build of the probe and a 48-case Miri slice",
             text="Every builtin x arity 0..4 x ~110 argument values of every kind (boundary numbers, malformed format strings, live file/pcap/packet handles), builtin chains, recursion-depth ladders around the frame and stack limits, many locals/globals/arguments, ill-typed generated programs, every layer of random frames and of all their truncations read and written back, 34 non-printing operations on self-containing containers, exit statuses and 40 filter programs end to end in both profiles; held on everything observed except the open finding KF-C08-1 (== / hashing of two distinct self-containing containers).",
             note="Exclusions of the property are honoured: a failed request larger than the installed memory / capacity overflow and printing of self-containing containers are counted, not judged. sleep with huge/negative arguments is not judged. ASan leak detection is off (reference cycles built by programs leak by design).",
             design="6/C08"),
 "C04": dict(level="exploration", technique="differential monitor against a lexically scoped definitional evaluator, with a generator concentrated on binding structure (shadowing, sibling blocks, dead names, closures in blocks/loops, captured writes)",
             text="3e3-1.2e5 random programs with shadowing at every depth, re-used names in sibling blocks, closures created in blocks and loops and called after their frame is gone, writes to captured variables and globals; uses of names whose block has ended must be compile errors; plus 21 hand-written binding scenarios. Held on everything observed.",
             note="Trusted: gen.py's evaluator (lexical resolution, capture by value at creation, globals by reference) and its static well-formedness check. `let a = <expr mentioning a>` is not generated.",
             design="6/C04"),
 "C05": dict(level="exploration", technique="table oracle + differential monitor: exhaustive scrutinee x pattern tables and if/else-if chains run on the real VM and compared with the pattern/truthiness model; generated nestings of if/match/labelled loops compared with the evaluator",
             text="Every literal, alternative list and range a..b / a..=b (incl. empty and inverted) over small integer/char/byte/string domains x every scrutinee of the domain and of other kinds, with and without default, overlapping arms, scrutinee evaluated once, mixed-type arms rejected; if/else-if/else chains over 23 truthiness representatives; 2.5e3-1e5 generated control-flow programs. Held apart from KF-C05-1.",
             note="Trusted: the pattern model in gen.py (equality of C09, range = lo <= v < / <= hi within one kind) and the truthiness table of C06.",
             design="6/C05"),
 "C07": dict(level="exploration", technique="online invariant monitor on the VM step hook: per-program-point operand-stack height (sp-bp constant per (function, ip)), height 0 at every top-level statement boundary (compiler hook), no 'Stack overflow!' without recursion",
             text="5 loop shapes x 27 body shapes x break/continue/labelled x conditions x {3, 100, 10^4} iterations and 1.5e3-6e4 recursion-free generated programs, 5e7+ VM steps monitored per quick run; held on everything observed apart from KF-C07-1 (break/continue with operands pending).",
             note="Trusted: the probe's RunMonitor (updated in the hook callback, same thread as the VM), the guarded step and top-level-statement hooks. Per-statement balance inside value-producing blocks is deliberately not asserted.",
             design="6/C07"),
 "C13": dict(level="exploration", technique="line oracle over observed runtime errors: programs with random preceding code and exactly one failing single-line construct; RTError.line (probe) and the '[line N]' of the real binary compared with the line the construct is written on",
             text="39 failing constructs (every operator class, index/key errors, calls, arity, builtins, properties) x 7 contexts (top level, function called from another line, closure, loop, match arm, multi-line literal, filter action) x LF/CRLF x multi-line string literals before; held on everything observed.",
             note="Trusted: the generator's own line bookkeeping (one line per LF; CRLF is one line end).",
             design="6/C13"),
 "C14": dict(level="exploration", technique="online monitors on compiler and VM hooks: emit-intent table vs decoded final code per scope; code-layout walk of every executed ip; exhaustive make/read_operands round trip; limit programs just below/above every encoding limit",
             text="Round trip over every opcode x operand value (1e6 instructions; Closure's second operand fully enumerated in the thorough tier), 2.5e3-8e4 generated programs with both monitors armed (1e6 emitted instructions and 1e6+ VM steps checked per quick run), ~50 limit programs (constants incl. REPL accumulation, locals, arguments, captured variables, literal sizes, jump distances, globals in the thorough tier); held on everything observed.",
             note="Trusted: probe monitors (same thread as the code observed), the guarded emit/patch/replace/truncate/scope-done and step hooks; operand widths of the layout monitor are transcribed from the VM, not from DEFINITIONS.",
             design="6/C14"),
 "C15": dict(level="exploration", technique="identity oracle over written bytes: frames (structure-aware generator, every truncation) read through scripts performing model-generated read sequences, then written with pcap_write / write() / filter-mode output and compared byte for byte with the captured records",
             text="250-6000 random frames over all layer stacks (every IHL, every TCP data offset, QinQ, IPv6-in-IPv4, unknown types, inconsistent lengths) plus their truncations (14 sampled / all prefixes) x 0-12 reads incl. inner layers by matching and contradicting names; 60-1200 filter-mode runs with $0..$10 through the real binary in both profiles; held on everything observed.",
             note="Trusted: pkt.py (pcap reader/writer) and pktscript.py's model of the layer cache, which only serves to generate reads that cannot raise.",
             design="6/C15"),
 "C16": dict(level="exploration", technique="RFC field-table oracle: scripts read every property of generated frames; per-field value sweeps with random neighbouring bits; $n / layer dispatch end to end in filter mode over all EtherTypes, protocols and next headers",
             text="Per field all values (<= 16 bits, thorough) or boundary patterns + 256 random values (quick) for every property of Ethernet, 802.1Q, IPv4, IPv6, TCP, UDP; all fields and payload offsets of 400-8000 random frames; pcap global- and record-header properties; dispatch for 65536 EtherTypes (sampled every 257th in quick), 256 protocols, 256 next headers, deep stacks and a byte-by-byte truncation ladder through the real binary; held on everything observed.",
             note="Trusted: pkt.FIELDS (bit offsets transcribed from the RFCs), reference address parsers. TCP flags: 8, 9 or 12 low bits accepted.",
             design="6/C16"),
 "C17": dict(level="exploration", technique="bit-range oracle: assignment scripts on generated frames; read-back, all other properties, written bytes (must differ from the captured ones only inside the field's bit range) and re-read after re-opening are compared with the field table",
             text="Every writable property x in-range values (all values for fields <= 12 bits in the thorough tier) x out-of-range / wrong-kind values x frames over 12 layer stacks, plus 150-4000 sequences of 2-6 assignments followed by write and re-read; held on everything observed.",
             note="Trusted: pkt.FIELDS. An invalid value may be rejected or stored reduced to the width; 'packet unchanged after a rejected assignment' is not observable after the runtime error ended the script and is not judged.",
             design="6/C17"),
 "C18": dict(level="exploration", technique="reference-parser oracle (Python ipaddress, 6-line MAC parser): address texts assigned to eth/ipv4/ipv6 src/dst, read-back text re-assigned, stored bytes compared with the reference value; malformed texts must raise",
             text="Random and boundary addresses; IPv6 over all 36 positions/lengths of '::' x upper/lower case x with/without leading zeros; ~45 malformed texts (group counts, ranges, two '::', ':::', stray separators, empty); held on everything observed.",
             note="Non-standard but tolerated spellings (signs, leading zeros in dotted quads, one-digit MAC octets, mixed IPv4 notation) are not judged.",
             design="6/C18"),
 "C19": dict(level="exploration", technique="history checker against a Python pcap reader/writer: interleaved pcap_read_next / pcap_read_all / pcap_read_all(n) on one handle must return successive slices of the record list; write-back compared byte for byte; every truncation offset and header corruption must yield the complete records, then null or an error object",
             text="400-12000 well-formed files (0-50 records, sizes around 0..70 / 4096 / 8192 / 65535, both magics, snaplen from max caplen to 2^32-1) x random read histories and write-back; every byte-offset truncation of 12-250 small files; 60-1500 corrupted files (caplen > snaplen, caplen beyond EOF, bad / big-endian magic, short global header); held on everything observed.",
             note="Trusted: pkt.py. After the first null/error from a damaged file further reads are only required not to crash; pcap_read_all on a corrupted file may return the complete records or an error object.",
             design="6/C19"),
 "C20": dict(level="exploration", technique="reference-model monitor at the process boundary: random filter programs x random pcap streams through the real binary (dev and release, with and without -s); stdout pcap bytes / stdout text / stderr compared with a Python model of the stream loop",
             text="500-15000 runs: 1-5 filters over NP/PL/WL/TSS/TSU, globals and L2 fields, actions updating globals/locals, printing, assigning L2/L3 fields, action-less selecting filters, optional end filter, 0-40 packets, both magics, random snaplen/linktype/version/zone/sigfigs; held on everything observed.",
             note="Trusted: the 60-line stream-loop model in c20.py. Programs never raise inside a filter and print to stdout only with -s.",
             design="6/C20"),
 "C21": dict(level="exploration", technique="reference-model monitor at the process boundary: input builtins (read, read_line, read_to_string, input, pcap_stream) of the real binary fed through pipes with adversarial chunking and delays, files, and empty / partial / EOF-without-newline streams; results compared with a Python model of the consumed prefix",
             text="random read plans x random chunk / delay schedules on stdin pipes and files, both profiles; every byte is delivered exactly once, in order, to exactly one read; EOF is reported once and stays; held on everything observed.",
             note="Trusted: the stream-consumption model in c21.py. Reads by byte count use ASCII data (a count that splits a UTF-8 sequence is outside the property).",
             design="6/C21"),
 "C22": dict(level="fault_enumeration", technique="fault enumeration at the OS boundary with an oracle on the outcome: every file / stdin / stdout / pcap builtin of the real binary x every environmental failure that can be provoked without a fault-injection library (ENOENT, EISDIR, ENOTDIR, EACCES via uid drop, EEXIST, ENOSPC on /dev/full, EPIPE on closed readers, EBADF on closed descriptors, truncated / garbage / oversize pcap data); monitor = 'error object or documented result, program continues, no panic, no partial success reported as success'",
             text="the complete builtin x failure table (quick) plus randomised truncation points and repeated runs (thorough), both profiles; held on every row; rows that need a privilege drop are reported as not exercised when the drop is impossible.",
             note="Trusted: the per-row expectation table in c22.py. Failures that need a failing disk mid-write other than /dev/full (EIO) cannot be provoked in this sandbox and are not exercised.",
             design="6/C22"),
 "C23": dict(level="exploration", technique="metamorphic monitor at the process boundary: the real run_prompt loop (line source replaced by the guarded scripted hook, which also marks every read on stdout and stderr) against the implementation's own -c / script mode run on the accepted lines so far; per-line stdout, acceptance and runtime-error status compared",
             text="120-3000 histories of 1-12 lines: definitions, redefinitions, functions and closures over globals, printing and echoed uses, mutations, parse errors, compile errors (undefined names, break outside loop, errors inside function bodies, invalid match arms), runtime failures, continuation lines; both profiles; held on everything observed.",
             note="Trusted: the segmentation of output by the hook's markers. dialoguer's terminal line editing is not exercised (the hook replaces it); the loop around it is the real one.",
             design="6/C23"),
 "C24": dict(level="exploration", technique="metamorphic + direct monitor at the process boundary: the same program run as a file, as a file with a shebang / comment first line and with -c, with the same argument vectors; stdout, stderr, exit status and argv compared between modes and with a direct expectation",
             text="400-4000 programs ending in every kind of final statement, failing at a random statement or not, x 15+ argument-vector shapes (empty, unicode, spaces, empty strings, dash-prefixed after --), x exit statuses, both profiles; held on everything observed.",
             note="Trusted: the expected-output bookkeeping of the generator in c24.py. Values echoed by -c are restricted to kinds with a fixed display.",
             design="6/C24"),
}

PENDING_REASON = "check not built yet in this session (design in DESIGN.md section 6); not claimed until its monitor runs silently on the unchanged tree"

def hook_commits():
    out = subprocess.run(["git", "-C", "/repo", "log", "--format=%H %s"], capture_output=True, text=True).stdout
    return [l.split()[0] for l in out.splitlines() if l.split(" ", 1)[1].startswith("verif hooks:")][::-1]

def main():
    m = {
      "version": 1,
      "setup_cmd": "python3 vf.py setup",
      "hooks": {
        "guard": "p2sh_verif",
        "enable": "RUSTFLAGS='--cfg p2sh_verif' cargo build --offline (vf.py builds /repo into /verif/.build/p2sh and the probe crate /verif/probe, which includes /repo/src by path, into /verif/.build/probe)",
        "baseline_off_cmd": "cd /repo && cargo test --workspace --no-fail-fast --offline",
        "source_commits": hook_commits(),
        "add_only": True,
      },
      "engines": [
        {"name": "probe", "path": "probe/", "serves_properties": sorted(CHECKS), "kind_free_text": "Rust harness crate compiling /repo/src in-process with hooks on: executor, panic monitor, stack-height / emit-intent / code-layout monitors"},
        {"name": "vf", "path": "vf.py", "serves_properties": sorted(CHECKS), "kind_free_text": "Python orchestrator: workload generators, reference models, offline checkers, verdicts, evidence, known findings"},
      ],
      "checks": [],
      "not_applicable": [],
      "notes": "Family: runtime monitoring. Every check drives the real code (in-process probe and/or the real binary, both rebuilt from /repo's working tree with --cfg p2sh_verif) and decides with an oracle over observed executions. Exit 0 = held on everything explored, 1 = VIOLATION line(s), 2 = inconclusive (too little observed / build failure). Known findings: known_findings.json.",
    }
    for pid in ALL:
        if pid in CHECKS:
            c = CHECKS[pid]
            m["checks"].append({
              "property_id": pid,
              "quick_cmd": "python3 vf.py check %s --tier quick" % pid,
              "thorough_cmd": "python3 vf.py check %s --tier thorough" % pid,
              "evidence_file": "evidence/%s.json" % pid,
              "replay_cmd_template": "python3 vf.py replay {path}",
              "engine": "probe+vf",
              "level_claimed": {"category": c["level"], "text": c["text"], "design_ref": c["design"]},
              "level_note": c["note"],
              "technique": c["technique"],
            })
        else:
            m["not_applicable"].append({"property_id": pid, "reason": PENDING_REASON})
    with open(os.path.join(os.path.dirname(os.path.abspath(__file__)), "MANIFEST.json"), "w") as f:
        json.dump(m, f, indent=1)
    print("MANIFEST.json: %d checks, %d not claimed" % (len(m["checks"]), len(m["not_applicable"])))

if __name__ == "__main__":
    main()
