#!/usr/bin/env python3
"""Refresh the measured cost table of DESIGN.md section 9 from two sweep logs (run by hand):
   update_cost_table.py <quick sweep log> <thorough sweep log>"""
import re, sys
def parse(path):
    out = {}
    for l in open(path):
        m = re.search(r"(C\d\d) (quick|thorough) seed=\d+: (\d+) evaluations, (\d+) distinct shapes.*?, ([0-9.]+)s", l)
        if m:
            out[m.group(1)] = (int(m.group(3)), int(m.group(4)), float(m.group(5)))
    return out
q, t = parse(sys.argv[1]), parse(sys.argv[2])
rows = ["| ID | quick: evaluations | distinct | wall | thorough: evaluations | distinct | wall |", "|----|-------------------:|---------:|-----:|----------------------:|---------:|-----:|"]
for i in range(1, 25):
    c = "C%02d" % i
    a, b = q.get(c), t.get(c)
    rows.append("| %s | %s | %s | %s | %s | %s | %s |" % (c, *( ("%d" % a[0], "%d" % a[1], "%.0f s" % a[2]) if a else ("-", "-", "-")), *(("%d" % b[0], "%d" % b[1], "%.0f s" % b[2]) if b else ("-", "-", "-"))))
table = "\n".join(rows) + "\n"
p = "/verif/DESIGN.md"
s = open(p).read()
s = re.sub(r"(<!-- COST-TABLE-BEGIN -->\n).*?(<!-- COST-TABLE-END -->)", lambda m: m.group(1) + table + m.group(2), s, flags=re.S)
open(p, "w").write(s)
print(table)
