#!/usr/bin/env python3
"""Maintenance helper for known_findings.json (used by hand while building; never by a check).
  kf.py fixed <property> <substring of the fix commit subject> <what failed>
  kf.py open <id> <property> <what fails> <witness> <sig> [<sig> ...]
"""
import json, subprocess, sys
P = "/verif/known_findings.json"
d = json.load(open(P))
if sys.argv[1] == "fixed":
    prop, sub, what = sys.argv[2:5]
    log = subprocess.run(["git", "-C", "/repo", "log", "--format=%h %s"], capture_output=True, text=True).stdout.splitlines()
    hits = [l for l in log if l.split(" ", 1)[1].startswith("fix:") and sub in l]
    assert len(hits) == 1, hits
    h = hits[0].split()[0]
    line = "fixed: property=%s %s %s" % (prop, h, what)
    d["fixed"] = [x for x in d["fixed"] if " %s " % h not in x or "property=%s " % prop not in x] + [line]
    print(line)
elif sys.argv[1] == "open":
    kid, prop, what, witness = sys.argv[2:6]
    sigs = sys.argv[6:]
    d["findings"] = [f for f in d["findings"] if f["id"] != kid]
    d["findings"].append({"id": kid, "property": prop, "status": "open", "what_fails": what, "witness": witness, "sigs": sigs})
    print("open", kid)
json.dump(d, open(P, "w"), indent=1, ensure_ascii=False)
