// Online monitors fed by the repository's verification hooks. All state lives
// in the worker thread that also runs the code under observation, so the
// monitors are updated atomically with the state they shadow.
use std::collections::HashMap;

use crate::code::definitions::{lookup, read_operands};
use crate::util::jstr;
use crate::verif::{EmitEvent, StepEvent};

/// Operand widths per opcode, written down independently of the repository's
/// DEFINITIONS table (transcribed from the VM's inline decoding in
/// src/vm/interpreter.rs: how many bytes `run` skips for each opcode).
pub fn op_widths(op: u8) -> &'static [usize] {
    match op {
        0 => &[2],            // Constant
        15 | 16 | 17 => &[2], // Jump, JumpIfFalse, JumpIfFalseNoPop
        19 | 20 | 21 => &[2], // Define/Get/SetGlobal
        22 | 23 => &[2],      // Array, Map
        26 => &[1],           // Call
        29 | 30 | 31 => &[1], // Define/Get/SetLocal
        32 | 33 => &[1],      // GetBuiltinFn, GetBuiltinVar
        34 => &[2, 1],        // Closure
        35 | 36 => &[1],      // GetFree, SetFree
        45 | 46 => &[1],      // GetProp, SetProp
        _ => &[],
    }
}

const OP_JUMP: u8 = 15;
const OP_JIF: u8 = 16;
const OP_JIFNP: u8 = 17;
const OP_CALL: u8 = 26;
const OP_RETV: u8 = 27;
const OP_RET: u8 = 28;

#[derive(Clone)]
struct Intent {
    op: u8,
    operands: Vec<usize>,
}

/// C14 (i): what the compiler *meant* to emit at every position of every
/// scope, compared with what the finished byte stream decodes to.
#[derive(Default)]
pub struct EmitMonitor {
    scopes: Vec<HashMap<usize, Intent>>,
    pub toplevel: Vec<usize>,
    pub instructions_checked: u64,
    pub scopes_checked: u64,
    pub max_operand: usize,
    pub mismatches: Vec<String>,
    pub events: u64,
}

impl EmitMonitor {
    fn scope(&mut self, s: usize) -> &mut HashMap<usize, Intent> {
        while self.scopes.len() <= s {
            self.scopes.push(HashMap::new());
        }
        &mut self.scopes[s]
    }

    pub fn on_event(&mut self, ev: &EmitEvent, check: bool) {
        self.events += 1;
        match ev {
            EmitEvent::Emit { scope, pos, op, operands } => {
                for &o in operands.iter() {
                    if o > self.max_operand {
                        self.max_operand = o;
                    }
                }
                let it = Intent { op: *op, operands: operands.to_vec() };
                self.scope(*scope).insert(*pos, it);
            }
            EmitEvent::Patch { scope, pos, operand } => {
                if *operand > self.max_operand {
                    self.max_operand = *operand;
                }
                let known = self.scope(*scope).contains_key(pos);
                if known {
                    self.scope(*scope).get_mut(pos).unwrap().operands = vec![*operand];
                } else if check && self.mismatches.len() < 8 {
                    self.mismatches.push(format!("patch of unknown position scope={} pos={}", scope, pos));
                }
            }
            EmitEvent::Replace { scope, pos, op } => {
                let o = *op;
                if let Some(i) = self.scope(*scope).get_mut(pos) {
                    i.op = o;
                    i.operands.clear();
                }
            }
            EmitEvent::Truncate { scope, len } => {
                let l = *len;
                self.scope(*scope).retain(|p, _| *p < l);
            }
            EmitEvent::TopLevelStmt { pos } => {
                self.toplevel.push(*pos);
            }
            EmitEvent::ScopeDone { scope, code } => {
                if check {
                    self.check_scope(*scope, code);
                }
                if *scope > 0 {
                    self.scope(*scope).clear();
                }
            }
        }
    }

    fn check_scope(&mut self, scope: usize, code: &[u8]) {
        self.scopes_checked += 1;
        let table = self.scope(scope).clone();
        let mut i = 0usize;
        let mut seen = 0usize;
        while i < code.len() {
            let def = match lookup(code[i]) {
                Ok(d) => d,
                Err(e) => {
                    if self.mismatches.len() < 8 {
                        self.mismatches.push(format!("scope={} pos={} undecodable: {}", scope, i, e));
                    }
                    return;
                }
            };
            let w = op_widths(code[i]);
            let need = 1 + w.iter().sum::<usize>();
            if i + need > code.len() {
                if self.mismatches.len() < 8 {
                    self.mismatches.push(format!("scope={} pos={} truncated instruction", scope, i));
                }
                return;
            }
            let (decoded, read) = read_operands(def, &code[i + 1..]);
            self.instructions_checked += 1;
            match table.get(&i) {
                None => {
                    if self.mismatches.len() < 8 {
                        self.mismatches.push(format!(
                            "scope={} pos={} op={} decoded={:?} was never emitted here",
                            scope, i, code[i], decoded
                        ));
                    }
                }
                Some(it) => {
                    seen += 1;
                    let n = decoded.len();
                    let intent_ops: Vec<usize> = it.operands.iter().take(n).cloned().collect();
                    if it.op != code[i] || intent_ops.len() != n || intent_ops != decoded || read != need - 1 {
                        if self.mismatches.len() < 8 {
                            self.mismatches.push(format!(
                                "scope={} pos={} intent op={} operands={:?} decoded op={} operands={:?}",
                                scope, i, it.op, it.operands, code[i], decoded
                            ));
                        }
                    }
                }
            }
            i += need;
        }
        if seen != table.len() && self.mismatches.len() < 8 {
            self.mismatches.push(format!(
                "scope={} emitted {} instructions but only {} are instruction starts of the final stream",
                scope,
                table.len(),
                seen
            ));
        }
    }

    pub fn report(&self) -> String {
        format!(
            "{{\"events\":{},\"instructions\":{},\"scopes\":{},\"max_operand\":{},\"mismatches\":[{}]}}",
            self.events,
            self.instructions_checked,
            self.scopes_checked,
            self.max_operand,
            self.mismatches.iter().map(|m| jstr(m)).collect::<Vec<_>>().join(",")
        )
    }
}

/// C07 (program-point height invariant, statement-boundary heights) and
/// C14 (ii) (the VM walks the code exactly along the encoder's layout).
pub struct RunMonitor {
    heights_on: bool,
    layout_on: bool,
    bounds: Vec<usize>,
    pub steps: u64,
    pub max_sp: usize,
    pub max_frames: usize,
    ops_seen: [bool; 64],
    // (func, ip) -> (height, visits)
    points: HashMap<(usize, usize), (usize, u64)>,
    height_violations: Vec<String>,
    bound_hits: u64,
    bound_violations: Vec<String>,
    main_func: Option<usize>,
    // per frames_index: (func, ip, op)
    last: Vec<Option<(usize, usize, u8)>>,
    starts: HashMap<usize, Vec<bool>>,
    layout_checked: u64,
    layout_violations: Vec<String>,
}

impl RunMonitor {
    pub fn new(heights_on: bool, layout_on: bool, bounds: Vec<usize>) -> Self {
        RunMonitor {
            heights_on,
            layout_on,
            bounds,
            steps: 0,
            max_sp: 0,
            max_frames: 0,
            ops_seen: [false; 64],
            points: HashMap::new(),
            height_violations: Vec::new(),
            bound_hits: 0,
            bound_violations: Vec::new(),
            main_func: None,
            last: Vec::new(),
            starts: HashMap::new(),
            layout_checked: 0,
            layout_violations: Vec::new(),
        }
    }

    pub fn on_step(&mut self, ev: &StepEvent) {
        self.steps += 1;
        if ev.sp > self.max_sp {
            self.max_sp = ev.sp;
        }
        if ev.frames_index > self.max_frames {
            self.max_frames = ev.frames_index;
        }
        if (ev.op as usize) < 64 {
            self.ops_seen[ev.op as usize] = true;
        }
        if self.main_func.is_none() && ev.frames_index == 1 {
            self.main_func = Some(ev.func);
        }
        if self.heights_on {
            let h = ev.sp.wrapping_sub(ev.bp);
            let e = self.points.entry((ev.func, ev.ip)).or_insert((h, 0));
            e.1 += 1;
            if e.0 != h && self.height_violations.len() < 5 {
                let is_main = Some(ev.func) == self.main_func;
                self.height_violations.push(format!(
                    "func={} ip={} op={} height_first={} height_now={} visit={}",
                    if is_main { "main".to_string() } else { format!("{:x}", ev.func) },
                    ev.ip,
                    ev.op,
                    e.0,
                    h,
                    e.1
                ));
            }
            if ev.frames_index == 1 && Some(ev.func) == self.main_func && self.bounds.binary_search(&ev.ip).is_ok() {
                self.bound_hits += 1;
                if ev.sp != 0 && self.bound_violations.len() < 5 {
                    self.bound_violations.push(format!("boundary ip={} sp={}", ev.ip, ev.sp));
                }
            }
        }
        if self.layout_on {
            self.layout_checked += 1;
            let starts = self.starts.entry(ev.func).or_insert_with(|| {
                let mut v = vec![false; ev.code.len() + 1];
                let mut i = 0;
                while i < ev.code.len() {
                    v[i] = true;
                    i += 1 + op_widths(ev.code[i]).iter().sum::<usize>();
                }
                v
            });
            if ev.ip >= starts.len() || !starts[ev.ip] {
                if self.layout_violations.len() < 5 {
                    self.layout_violations.push(format!("ip={} is not an instruction start (op byte {})", ev.ip, ev.op));
                }
            }
            let fi = ev.frames_index;
            while self.last.len() <= fi {
                self.last.push(None);
            }
            // frames above the current one are gone
            for l in self.last.iter_mut().skip(fi + 1) {
                *l = None;
            }
            if let Some((pf, pip, pop)) = self.last[fi] {
                if pf == ev.func {
                    let fall = pip + 1 + op_widths(pop).iter().sum::<usize>();
                    let target = if matches!(pop, OP_JUMP | OP_JIF | OP_JIFNP) && pip + 2 < ev.code.len() {
                        Some(((ev.code[pip + 1] as usize) << 8) | ev.code[pip + 2] as usize)
                    } else {
                        None
                    };
                    let ok = match pop {
                        OP_JUMP => Some(ev.ip) == target,
                        OP_JIF | OP_JIFNP => ev.ip == fall || Some(ev.ip) == target,
                        OP_RETV | OP_RET => true,
                        _ => ev.ip == fall,
                    };
                    if !ok && self.layout_violations.len() < 5 {
                        self.layout_violations.push(format!(
                            "after op={} at ip={} the VM continued at ip={} (fall-through {}, target {:?})",
                            pop, pip, ev.ip, fall, target
                        ));
                    }
                } else if ev.ip != 0 && self.layout_violations.len() < 5 {
                    // a different function in the same frame slot must start at 0
                    self.layout_violations.push(format!("new function in frame {} starts at ip={}", fi, ev.ip));
                }
            } else if ev.ip != 0 && self.layout_violations.len() < 5 {
                self.layout_violations.push(format!("fresh frame {} starts at ip={}", fi, ev.ip));
            }
            self.last[fi] = Some((ev.func, ev.ip, ev.op));
        }
    }

    pub fn report(&self) -> String {
        let ops: Vec<String> = self
            .ops_seen
            .iter()
            .enumerate()
            .filter(|(_, s)| **s)
            .map(|(i, _)| i.to_string())
            .collect();
        let mut s = format!(
            ",\"steps\":{},\"max_sp\":{},\"max_frames\":{},\"ops\":[{}]",
            self.steps,
            self.max_sp,
            self.max_frames,
            ops.join(",")
        );
        if self.heights_on {
            let revisited = self.points.values().filter(|v| v.1 > 1).count();
            let max_visits = self.points.values().map(|v| v.1).max().unwrap_or(0);
            s.push_str(&format!(
                ",\"height\":{{\"points\":{},\"revisited\":{},\"max_visits\":{},\"bound_hits\":{},\"violations\":[{}],\"bound_violations\":[{}]}}",
                self.points.len(),
                revisited,
                max_visits,
                self.bound_hits,
                self.height_violations.iter().map(|m| jstr(m)).collect::<Vec<_>>().join(","),
                self.bound_violations.iter().map(|m| jstr(m)).collect::<Vec<_>>().join(",")
            ));
        }
        if self.layout_on {
            s.push_str(&format!(
                ",\"layout\":{{\"checked\":{},\"functions\":{},\"violations\":[{}]}}",
                self.layout_checked,
                self.starts.len(),
                self.layout_violations.iter().map(|m| jstr(m)).collect::<Vec<_>>().join(",")
            ));
        }
        s
    }
}
