// p2sh-probe: in-process executor + recorder for the repository under test.
//
// The repository is a binary-only crate; build.rs generates `mods.rs`, which
// declares the repository's module tree by path, so the very same sources are
// compiled into this harness (with `--cfg p2sh_verif`, i.e. hooks on).
//
// Protocol (stdin):   CASE <id> <nbytes> [k=v ...]\n<nbytes of UTF-8 source>\n
//                     ENUM <id> <nbytes> kind=chars|tokens len=N shard=i/n\n<alphabet>\n
//                     OPCODES <id> 0 [full=1]\n\n
// Results (one JSON object per line) go to the *original* stdout; fd 1 and 2
// are re-pointed to /dev/null (or per-case capture files) so that program
// output never mixes with results.
#![allow(dead_code, unused_imports, unused_variables, clippy::all)]

include!(concat!(env!("OUT_DIR"), "/mods.rs"));

mod monitors;
mod util;

use std::cell::RefCell;
use std::collections::HashMap;
use std::io::{self, BufRead, Read, Write};
use std::panic::{self, AssertUnwindSafe};
use std::rc::Rc;

use compiler::symtab::SymbolScope;
use compiler::Compiler;
use object::Object;
use parser::Parser;
use scanner::token::TokenType;
use scanner::Scanner;
use util::*;
use vm::interpreter::VM;

thread_local! {
    static LAST_PANIC: RefCell<Option<(String, String)>> = const { RefCell::new(None) };
}

fn install_panic_hook() {
    panic::set_hook(Box::new(|info| {
        let msg = if let Some(s) = info.payload().downcast_ref::<&str>() {
            s.to_string()
        } else if let Some(s) = info.payload().downcast_ref::<String>() {
            s.clone()
        } else {
            "<non-string panic payload>".to_string()
        };
        let loc = info
            .location()
            .map(|l| format!("{}:{}:{}", l.file(), l.line(), l.column()))
            .unwrap_or_default();
        LAST_PANIC.with(|p| *p.borrow_mut() = Some((msg, loc)));
    }));
}

fn take_panic() -> (String, String) {
    LAST_PANIC
        .with(|p| p.borrow_mut().take())
        .unwrap_or_else(|| ("<unknown>".into(), String::new()))
}

struct Flags(HashMap<String, String>);
impl Flags {
    fn get(&self, k: &str) -> Option<&str> {
        self.0.get(k).map(|s| s.as_str())
    }
    fn num(&self, k: &str, d: u64) -> u64 {
        self.get(k).and_then(|v| v.parse().ok()).unwrap_or(d)
    }
    fn has(&self, k: &str, item: &str) -> bool {
        self.get(k)
            .map(|v| v.split(',').any(|x| x == item))
            .unwrap_or(false)
    }
}

/// Outcome of the front end for one text (shared by CASE and ENUM).
enum Front {
    ParseErrors(Vec<String>),
    CompileError(String),
    Compiled(Box<Compiler>),
    Panic(String, String),
    TokenBudget,
}

fn front_end(src: &str, token_budget: u64, want_ast: bool, ast_out: &mut Option<String>) -> Front {
    verif::set_token_budget(Some(token_budget));
    let r = panic::catch_unwind(AssertUnwindSafe(|| {
        let scanner = Scanner::new(src);
        let mut parser = Parser::new(scanner);
        let program = parser.parse_program();
        if !parser.parse_errors().is_empty() {
            return Front::ParseErrors(parser.parse_errors().clone());
        }
        let ast = if want_ast { Some(format!("{}", program)) } else { None };
        let mut compiler = Compiler::new();
        match compiler.compile(program) {
            Err(e) => Front::CompileError(format!("{}", e)),
            Ok(()) => {
                if let Some(a) = ast {
                    // smuggle the AST text out through the panic slot's sibling
                    AST_SLOT.with(|s| *s.borrow_mut() = Some(a));
                }
                Front::Compiled(Box::new(compiler))
            }
        }
    }));
    verif::set_token_budget(None);
    if want_ast {
        *ast_out = AST_SLOT.with(|s| s.borrow_mut().take());
    }
    match r {
        Ok(f) => f,
        Err(_) => {
            let (msg, loc) = take_panic();
            if msg == verif::TOKEN_BUDGET_MSG {
                Front::TokenBudget
            } else {
                Front::Panic(msg, loc)
            }
        }
    }
}

thread_local! {
    static AST_SLOT: RefCell<Option<String>> = const { RefCell::new(None) };
}

fn run_case(id: &str, src: &str, flags: &Flags, io_ctl: &mut IoCtl, out: &mut dyn Write) {
    let stage = flags.get("stage").unwrap_or("run").to_string();
    let nchars = src.chars().count() as u64;
    let token_budget = flags.num("tokens", 20 * (nchars + 16));
    let step_budget = flags.num("steps", 2_000_000);
    let mut j = String::new();
    j.push_str(&format!("{{\"id\":{}", jstr(id)));

    // scan-only stage: token stream under catch_unwind
    if stage == "scan" {
        let r = panic::catch_unwind(AssertUnwindSafe(|| {
            let mut sc = Scanner::new(src);
            let mut n = 0u64;
            let mut kinds = Vec::new();
            loop {
                let t = sc.next_token();
                n += 1;
                if t.ttype == TokenType::Eof {
                    break;
                }
                kinds.push(format!("{}", t.ttype));
                if n > token_budget {
                    return (n, kinds, true);
                }
            }
            (n, kinds, false)
        }));
        match r {
            Ok((n, kinds, over)) => {
                j.push_str(&format!(
                    ",\"stage\":\"scan\",\"outcome\":{},\"tokens\":{},\"kinds\":[{}]}}",
                    if over { "\"token_budget\"" } else { "\"ok\"" },
                    n,
                    kinds.iter().map(|k| jstr(k)).collect::<Vec<_>>().join(",")
                ));
            }
            Err(_) => {
                let (msg, loc) = take_panic();
                j.push_str(&format!(
                    ",\"stage\":\"scan\",\"outcome\":\"panic\",\"panic\":{{\"msg\":{},\"loc\":{}}}}}",
                    jstr(&msg),
                    jstr(&loc)
                ));
            }
        }
        let _ = writeln!(out, "{}", j);
        return;
    }

    // monitors that watch the compiler must be armed before compiling
    let mon_emits = flags.has("mon", "emits");
    let mon_heights = flags.has("mon", "heights");
    let mon_layout = flags.has("mon", "layout");
    let emit_mon = Rc::new(RefCell::new(monitors::EmitMonitor::default()));
    {
        let m = emit_mon.clone();
        let check = mon_emits;
        verif::set_on_emit(Some(Box::new(move |ev| m.borrow_mut().on_event(ev, check))));
    }

    let want_ast = flags.get("ast").is_some();
    let mut ast = None;
    let front = front_end(src, token_budget, want_ast, &mut ast);
    verif::set_on_emit(None);

    if let Some(a) = &ast {
        j.push_str(&format!(",\"ast\":{}", jstr(a)));
    }
    let mut compiler = match front {
        Front::ParseErrors(errs) => {
            j.push_str(&format!(
                ",\"stage\":\"parse\",\"outcome\":\"parse_errors\",\"diag\":[{}]}}",
                errs.iter().map(|e| jstr(e)).collect::<Vec<_>>().join(",")
            ));
            let _ = writeln!(out, "{}", j);
            return;
        }
        Front::CompileError(e) => {
            j.push_str(&format!(
                ",\"stage\":\"compile\",\"outcome\":\"compile_error\",\"diag\":[{}]}}",
                jstr(&e)
            ));
            let _ = writeln!(out, "{}", j);
            return;
        }
        Front::Panic(msg, loc) => {
            j.push_str(&format!(
                ",\"stage\":\"front\",\"outcome\":\"panic\",\"panic\":{{\"msg\":{},\"loc\":{}}}}}",
                jstr(&msg),
                jstr(&loc)
            ));
            let _ = writeln!(out, "{}", j);
            return;
        }
        Front::TokenBudget => {
            j.push_str(",\"stage\":\"front\",\"outcome\":\"token_budget\"}");
            let _ = writeln!(out, "{}", j);
            return;
        }
        Front::Compiled(c) => c,
    };

    // bytecode() fires ScopeDone for the main scope: keep the emit monitor armed
    {
        let m = emit_mon.clone();
        let check = mon_emits;
        verif::set_on_emit(Some(Box::new(move |ev| m.borrow_mut().on_event(ev, check))));
    }
    let bc = panic::catch_unwind(AssertUnwindSafe(|| compiler.bytecode()));
    verif::set_on_emit(None);
    let bytecode = match bc {
        Ok(b) => b,
        Err(_) => {
            let (msg, loc) = take_panic();
            j.push_str(&format!(
                ",\"stage\":\"compile\",\"outcome\":\"panic\",\"panic\":{{\"msg\":{},\"loc\":{}}}}}",
                jstr(&msg),
                jstr(&loc)
            ));
            let _ = writeln!(out, "{}", j);
            return;
        }
    };
    if mon_emits {
        j.push_str(&format!(",\"emit\":{}", emit_mon.borrow().report()));
    }
    let n_filters = bytecode.filters.len() + bytecode.filter_end.is_some() as usize;
    j.push_str(&format!(
        ",\"code_len\":{},\"n_constants\":{},\"n_filters\":{}",
        bytecode.instructions.len(),
        bytecode.constants.len(),
        n_filters
    ));

    if stage == "compile" || stage == "parse" {
        j.push_str(",\"stage\":\"compile\",\"outcome\":\"ok\"}");
        let _ = writeln!(out, "{}", j);
        return;
    }

    // ---- run ----
    let bounds: Vec<usize> = emit_mon.borrow().toplevel.clone();
    let run_mon = Rc::new(RefCell::new(monitors::RunMonitor::new(
        mon_heights,
        mon_layout,
        bounds,
    )));
    {
        let m = run_mon.clone();
        verif::set_on_step(Some(Box::new(move |ev| m.borrow_mut().on_step(ev))));
    }
    verif::set_step_budget(Some(step_budget));
    io_ctl.begin_case(flags.get("out"), flags.get("err"));

    let argv: Vec<String> = flags
        .get("argv")
        .map(|a| a.split('\u{1f}').map(|s| s.to_string()).collect())
        .unwrap_or_default();

    let globals_wanted: Vec<String> = flags
        .get("globals")
        .map(|g| g.split(',').map(|s| s.to_string()).collect())
        .unwrap_or_default();
    let mut global_slots = Vec::new();
    for g in &globals_wanted {
        if let Some(sym) = compiler.symtab.resolve(g, 0) {
            if sym.scope == SymbolScope::Global {
                global_slots.push((g.clone(), sym.index));
            }
        }
    }
    let want_final = flags.get("final").is_some();

    let r = panic::catch_unwind(AssertUnwindSafe(|| {
        let mut vm = VM::new(bytecode);
        init_builtin_vars(&vm, argv);
        let res = vm.run();
        let mut extra = String::new();
        let mut first = true;
        extra.push_str(",\"globals\":{");
        for (name, idx) in &global_slots {
            if !first {
                extra.push(',');
            }
            first = false;
            extra.push_str(&format!("{}:{}", jstr(name), dump_obj(&vm.globals[*idx], 0)));
        }
        extra.push('}');
        if want_final && res.is_ok() {
            extra.push_str(&format!(",\"final\":{}", dump_obj(&vm.last_popped(), 0)));
        }
        (res.map_err(|e| (e.msg.clone(), e.line)), extra)
    }));
    io_ctl.end_case();
    verif::set_on_step(None);
    verif::set_step_budget(None);

    match r {
        Ok((res, extra)) => {
            match res {
                Ok(()) => j.push_str(",\"stage\":\"run\",\"outcome\":\"ok\""),
                Err((msg, line)) => {
                    if msg == verif::STEP_BUDGET_MSG {
                        j.push_str(",\"stage\":\"run\",\"outcome\":\"budget\"");
                    } else {
                        j.push_str(&format!(
                            ",\"stage\":\"run\",\"outcome\":\"rt_error\",\"rt\":{{\"msg\":{},\"line\":{}}}",
                            jstr(&msg),
                            line
                        ));
                    }
                }
            }
            j.push_str(&extra);
        }
        Err(_) => {
            let (msg, loc) = take_panic();
            j.push_str(&format!(
                ",\"stage\":\"run\",\"outcome\":\"panic\",\"panic\":{{\"msg\":{},\"loc\":{}}}",
                jstr(&msg),
                jstr(&loc)
            ));
        }
    }
    j.push_str(&run_mon.borrow().report());
    j.push('}');
    let _ = writeln!(out, "{}", j);
}

// Replica of main.rs::init_builtin_vars (main.rs itself is not part of the module tree)
fn init_builtin_vars(vm: &VM, args: Vec<String>) {
    use builtins::variables::BuiltinVarType;
    use object::array::Array;
    let elements: Vec<Rc<Object>> = args.into_iter().map(|s| Rc::new(Object::Str(s))).collect();
    let arr = Rc::new(Object::Arr(Rc::new(Array::new(elements))));
    vm.update_builtin_var(BuiltinVarType::Argv, arr);
    vm.update_builtin_var(BuiltinVarType::NP, Rc::new(Object::Null));
    vm.update_builtin_var(BuiltinVarType::PL, Rc::new(Object::Null));
    vm.update_builtin_var(BuiltinVarType::WL, Rc::new(Object::Null));
    vm.update_builtin_var(BuiltinVarType::Tss, Rc::new(Object::Null));
    vm.update_builtin_var(BuiltinVarType::Tsu, Rc::new(Object::Null));
}

// ---------------------------------------------------------------------------
// bounded-exhaustive enumeration of short texts (C01), inside the probe

fn run_enum(id: &str, body: &str, flags: &Flags, out: &mut dyn Write) {
    let kind = flags.get("kind").unwrap_or("chars");
    let len = flags.num("len", 2) as usize;
    let (shard_i, shard_n) = flags
        .get("shard")
        .and_then(|s| {
            let mut it = s.split('/');
            Some((it.next()?.parse::<u64>().ok()?, it.next()?.parse::<u64>().ok()?))
        })
        .unwrap_or((0, 1));
    let symbols: Vec<String> = if kind == "chars" {
        body.chars().map(|c| c.to_string()).collect()
    } else {
        body.split('\u{1f}').map(|s| s.to_string()).collect()
    };
    let sep = if kind == "chars" { "" } else { " " };
    let n = symbols.len();
    let total: u64 = (n as u64).pow(len as u32);
    let mut counts: HashMap<&'static str, u64> = HashMap::new();
    // distinct failure sites -> (count, first witness)
    let mut fails: Vec<(String, String, u64, String)> = Vec::new();
    let mut evaluated = 0u64;
    let mut idx = vec![0usize; len];
    let mut k: u64 = 0;
    let mut text = String::new();
    while k < total {
        if k % shard_n == shard_i {
            text.clear();
            for (p, &i) in idx.iter().enumerate() {
                if p > 0 {
                    text.push_str(sep);
                }
                text.push_str(&symbols[i]);
            }
            let nchars = text.chars().count() as u64;
            let mut none = None;
            let f = front_end(&text, 20 * (nchars + 16), false, &mut none);
            evaluated += 1;
            let (key, site, msg): (&'static str, Option<String>, String) = match f {
                Front::ParseErrors(_) => ("parse_errors", None, String::new()),
                Front::CompileError(_) => ("compile_error", None, String::new()),
                Front::Compiled(_) => ("compiled", None, String::new()),
                Front::Panic(m, l) => ("panic", Some(l), m),
                Front::TokenBudget => ("token_budget", Some("token_budget".into()), String::new()),
            };
            *counts.entry(key).or_insert(0) += 1;
            if let Some(site) = site {
                if let Some(e) = fails.iter_mut().find(|e| e.0 == site) {
                    e.2 += 1;
                } else if fails.len() < 64 {
                    fails.push((site, msg, 1, text.clone()));
                }
            }
        }
        // next tuple
        k += 1;
        let mut p = len;
        while p > 0 {
            p -= 1;
            idx[p] += 1;
            if idx[p] < n {
                break;
            }
            idx[p] = 0;
        }
    }
    let mut j = format!(
        "{{\"id\":{},\"enum\":{},\"len\":{},\"symbols\":{},\"evaluated\":{},\"counts\":{{",
        jstr(id),
        jstr(kind),
        len,
        n,
        evaluated
    );
    let mut first = true;
    for (k, v) in &counts {
        if !first {
            j.push(',');
        }
        first = false;
        j.push_str(&format!("{}:{}", jstr(k), v));
    }
    j.push_str("},\"fails\":[");
    for (i, (site, msg, cnt, wit)) in fails.iter().enumerate() {
        if i > 0 {
            j.push(',');
        }
        j.push_str(&format!(
            "{{\"site\":{},\"msg\":{},\"count\":{},\"witness\":{}}}",
            jstr(site),
            jstr(msg),
            cnt,
            jstr(wit)
        ));
    }
    j.push_str("]}");
    let _ = writeln!(out, "{}", j);
}

// ---------------------------------------------------------------------------
// exhaustive make() -> read_operands() round trip (C14 iii)

fn run_opcodes(id: &str, flags: &Flags, out: &mut dyn Write) {
    use code::definitions::{lookup, make, read_operands};
    use code::opcode::Opcode;
    let full = flags.get("full").is_some();
    let mut checked = 0u64;
    let mut mism: Vec<String> = Vec::new();
    let mut per_op = Vec::new();
    for opb in 0u8..=60 {
        let op = Opcode::from(opb);
        if op == Opcode::Invalid {
            continue;
        }
        let widths = monitors::op_widths(opb);
        let r = panic::catch_unwind(AssertUnwindSafe(|| {
            let mut n = 0u64;
            let mut bad: Vec<String> = Vec::new();
            let mut one = |operands: &[usize], n: &mut u64, bad: &mut Vec<String>| {
                let ins = make(op, operands, 1);
                *n += 1;
                let exp_len = 1 + widths.iter().sum::<usize>();
                let ok_len = ins.code.len() == exp_len && ins.lines.len() == exp_len;
                let ok_op = !ins.code.is_empty() && ins.code[0] == opb;
                let dec = lookup(opb).ok().map(|d| read_operands(d, &ins.code[1..]));
                let ok_dec = match &dec {
                    Some((ops, read)) => {
                        *read == exp_len - 1 && ops.len() == widths.len() && ops[..] == operands[..widths.len()]
                    }
                    None => false,
                };
                if !(ok_len && ok_op && ok_dec) && bad.len() < 8 {
                    bad.push(format!("op={} operands={:?} code={:?} decoded={:?}", opb, operands, ins.code, dec));
                }
            };
            match widths.len() {
                0 => one(&[], &mut n, &mut bad),
                1 => {
                    let max = if widths[0] == 2 { 65536usize } else { 256 };
                    for v in 0..max {
                        one(&[v], &mut n, &mut bad);
                    }
                }
                _ => {
                    let m0 = if widths[0] == 2 { 65536usize } else { 256 };
                    let m1 = if widths[1] == 2 { 65536usize } else { 256 };
                    for a in 0..m0 {
                        if full {
                            for b in 0..m1 {
                                one(&[a, b], &mut n, &mut bad);
                            }
                        } else {
                            for b in [0usize, 1, 2, 127, 128, 254, 255] {
                                if b < m1 {
                                    one(&[a, b], &mut n, &mut bad);
                                }
                            }
                        }
                    }
                }
            }
            (n, bad)
        }));
        match r {
            Ok((n, bad)) => {
                checked += n;
                per_op.push(format!("[{},{}]", opb, n));
                mism.extend(bad);
            }
            Err(_) => {
                let (msg, loc) = take_panic();
                mism.push(format!("op={} panic {} at {}", opb, msg, loc));
            }
        }
    }
    let j = format!(
        "{{\"id\":{},\"opcodes\":true,\"checked\":{},\"per_op\":[{}],\"mismatches\":[{}]}}",
        jstr(id),
        checked,
        per_op.join(","),
        mism.iter().map(|m| jstr(m)).collect::<Vec<_>>().join(",")
    );
    let _ = writeln!(out, "{}", j);
}

// ---------------------------------------------------------------------------

fn worker() {
    install_panic_hook();
    let mut io_ctl = IoCtl::new();
    let mut out = io_ctl.result_writer();
    let stdin = io::stdin();
    let mut inp = stdin.lock();
    let mut header = String::new();
    loop {
        header.clear();
        match inp.read_line(&mut header) {
            Ok(0) | Err(_) => break,
            Ok(_) => {}
        }
        let h = header.trim_end_matches('\n');
        if h.is_empty() {
            continue;
        }
        let mut parts = h.split(' ');
        let cmd = parts.next().unwrap_or("");
        let id = parts.next().unwrap_or("").to_string();
        let nbytes: usize = parts.next().and_then(|s| s.parse().ok()).unwrap_or(0);
        let mut fl = HashMap::new();
        for p in parts {
            if let Some((k, v)) = p.split_once('=') {
                fl.insert(k.to_string(), unescape_flag(v));
            }
        }
        let flags = Flags(fl);
        let mut buf = vec![0u8; nbytes];
        if inp.read_exact(&mut buf).is_err() {
            break;
        }
        let mut nl = [0u8; 1];
        let _ = inp.read_exact(&mut nl);
        let body = match String::from_utf8(buf) {
            Ok(s) => s,
            Err(_) => {
                let _ = writeln!(out, "{{\"id\":{},\"outcome\":\"bad_utf8\"}}", jstr(&id));
                continue;
            }
        };
        let _ = writeln!(out, "BEGIN {}", id);
        let _ = out.flush();
        match cmd {
            "CASE" => run_case(&id, &body, &flags, &mut io_ctl, &mut out),
            "ENUM" => run_enum(&id, &body, &flags, &mut out),
            "OPCODES" => run_opcodes(&id, &flags, &mut out),
            _ => {
                let _ = writeln!(out, "{{\"id\":{},\"outcome\":\"bad_command\"}}", jstr(&id));
            }
        }
        let _ = writeln!(out, "END {}", id);
        let _ = out.flush();
    }
}

fn main() {
    // same native stack as the main thread of the real binary gets by default
    let stack_mb: usize = std::env::var("PROBE_STACK_MB")
        .ok()
        .and_then(|v| v.parse().ok())
        .unwrap_or(8);
    let t = std::thread::Builder::new()
        .stack_size(stack_mb << 20)
        .spawn(worker)
        .expect("spawn worker");
    let _ = t.join();
}
