use std::fs::File;
use std::io::{self, Write};
use std::os::unix::io::{FromRawFd, IntoRawFd};
use std::rc::Rc;

use crate::object::Object;

pub fn jstr(s: &str) -> String {
    let mut o = String::with_capacity(s.len() + 2);
    o.push('"');
    for c in s.chars() {
        match c {
            '"' => o.push_str("\\\""),
            '\\' => o.push_str("\\\\"),
            '\n' => o.push_str("\\n"),
            '\r' => o.push_str("\\r"),
            '\t' => o.push_str("\\t"),
            c if (c as u32) < 0x20 || c == '\u{7f}' => o.push_str(&format!("\\u{:04x}", c as u32)),
            c => o.push(c),
        }
    }
    o.push('"');
    o
}

pub fn unescape_flag(v: &str) -> String {
    let b = v.as_bytes();
    let mut out = Vec::with_capacity(b.len());
    let mut i = 0;
    while i < b.len() {
        if b[i] == b'%' && i + 2 < b.len() {
            if let Ok(x) = u8::from_str_radix(&v[i + 1..i + 3], 16) {
                out.push(x);
                i += 3;
                continue;
            }
        }
        out.push(b[i]);
        i += 1;
    }
    String::from_utf8_lossy(&out).into_owned()
}

const MAX_DEPTH: usize = 12;
const MAX_ELEMS: usize = 200_000;

/// Canonical, lossless dump of a value: integers as decimal strings, floats
/// as IEEE bit patterns, chars as code points.
pub fn dump_obj(obj: &Rc<Object>, depth: usize) -> String {
    if depth > MAX_DEPTH {
        return "{\"deep\":1}".to_string();
    }
    match obj.as_ref() {
        Object::Null => "null".to_string(),
        Object::Bool(b) => format!("{}", b),
        Object::Integer(n) => format!("{{\"i\":\"{}\"}}", n),
        Object::Float(f) => format!("{{\"f\":\"{:016x}\"}}", f.to_bits()),
        Object::Str(s) => format!("{{\"s\":{}}}", jstr(s)),
        Object::Char(c) => format!("{{\"c\":{}}}", *c as u32),
        Object::Byte(b) => format!("{{\"b\":{}}}", b),
        Object::Arr(a) => {
            let els = a.elements.borrow();
            let mut s = String::from("{\"a\":[");
            for (i, e) in els.iter().take(MAX_ELEMS).enumerate() {
                if i > 0 {
                    s.push(',');
                }
                s.push_str(&dump_obj(e, depth + 1));
            }
            s.push_str("]}");
            s
        }
        Object::Map(m) => {
            let pairs = m.pairs.borrow();
            let mut s = String::from("{\"m\":[");
            for (i, (k, v)) in pairs.iter().take(MAX_ELEMS).enumerate() {
                if i > 0 {
                    s.push(',');
                }
                s.push_str(&format!("[{},{}]", dump_obj(k, depth + 1), dump_obj(v, depth + 1)));
            }
            s.push_str("]}");
            s
        }
        Object::Clos(_) | Object::Func(_) => "{\"fn\":1}".to_string(),
        Object::Builtin(b) => format!("{{\"bi\":{}}}", jstr(b.name)),
        Object::Err(e) => format!("{{\"e\":{}}}", jstr(&format!("{}", e))),
        Object::File(f) => format!("{{\"file\":{}}}", jstr(&format!("{}", f))),
        Object::Pcap(_) => "{\"o\":\"pcap\"}".to_string(),
        Object::Packet(_) => "{\"o\":\"packet\"}".to_string(),
        Object::Eth(_) => "{\"o\":\"eth\"}".to_string(),
        Object::Vlan(_) => "{\"o\":\"vlan\"}".to_string(),
        Object::Ipv4(_) => "{\"o\":\"ipv4\"}".to_string(),
        Object::Ipv6(_) => "{\"o\":\"ipv6\"}".to_string(),
        Object::Udp(_) => "{\"o\":\"udp\"}".to_string(),
        Object::Tcp(_) => "{\"o\":\"tcp\"}".to_string(),
        Object::Return(_) => "{\"o\":\"return\"}".to_string(),
    }
}

/// Keeps program output away from the result channel.
pub struct IoCtl {
    result_fd: i32,
    devnull: i32,
}

impl IoCtl {
    pub fn new() -> Self {
        unsafe {
            let result_fd = libc::dup(1);
            let devnull = File::options()
                .write(true)
                .open("/dev/null")
                .expect("open /dev/null")
                .into_raw_fd();
            libc::dup2(devnull, 1);
            libc::dup2(devnull, 2);
            IoCtl { result_fd, devnull }
        }
    }

    pub fn result_writer(&self) -> io::BufWriter<File> {
        unsafe { io::BufWriter::new(File::from_raw_fd(self.result_fd)) }
    }

    pub fn begin_case(&mut self, out: Option<&str>, err: Option<&str>) {
        let _ = io::stdout().flush();
        let _ = io::stderr().flush();
        unsafe {
            if let Some(p) = out {
                if let Ok(f) = File::options().write(true).create(true).truncate(true).open(p) {
                    let fd = f.into_raw_fd();
                    libc::dup2(fd, 1);
                    libc::close(fd);
                }
            }
            if let Some(p) = err {
                if let Ok(f) = File::options().write(true).create(true).truncate(true).open(p) {
                    let fd = f.into_raw_fd();
                    libc::dup2(fd, 2);
                    libc::close(fd);
                }
            }
        }
    }

    pub fn end_case(&mut self) {
        let _ = io::stdout().flush();
        let _ = io::stderr().flush();
        unsafe {
            libc::dup2(self.devnull, 1);
            libc::dup2(self.devnull, 2);
        }
    }
}
