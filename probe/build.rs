// Generates the module tree of the repository under test from the `mod`
// lines of <P2SH_SRC>/src/main.rs, so that `crate::...` paths inside the
// repository sources resolve unchanged inside this harness crate.
use std::env;
use std::fs;
use std::path::Path;

fn main() {
    let src = env::var("P2SH_SRC").unwrap_or_else(|_| "/repo".to_string());
    println!("cargo:rerun-if-env-changed=P2SH_SRC");
    let main_rs = format!("{}/src/main.rs", src);
    println!("cargo:rerun-if-changed={}", main_rs);
    let text = fs::read_to_string(&main_rs).expect("cannot read main.rs of the repository");
    let mut out = String::new();
    for line in text.lines() {
        let l = line.trim();
        if let Some(rest) = l.strip_prefix("mod ") {
            if let Some(name) = rest.strip_suffix(';') {
                let name = name.trim();
                let dir = format!("{}/src/{}/mod.rs", src, name);
                let file = format!("{}/src/{}.rs", src, name);
                let path = if Path::new(&dir).exists() { dir } else { file };
                println!("cargo:rerun-if-changed={}", path);
                out.push_str(&format!("#[path = \"{}\"]\npub mod {};\n", path, name));
            }
        }
    }
    let dest = Path::new(&env::var("OUT_DIR").unwrap()).join("mods.rs");
    fs::write(dest, out).unwrap();
}
