#!/usr/bin/env python3
"""Refresh the seeded-change table of DESIGN.md section 12.5 from /verif/seeded/*/meta.json (run by hand)."""
import subprocess, re
t = subprocess.run(["python3", "/verif/seedtool.py", "table"], capture_output=True, text=True).stdout
p = "/verif/DESIGN.md"
s = open(p).read()
s = re.sub(r"(<!-- SEED-TABLE-BEGIN[^\n]*-->\n).*?(<!-- SEED-TABLE-END -->)", lambda m: m.group(1) + t + m.group(2), s, flags=re.S)
open(p, "w").write(s)
print("table rows:", t.count("\n") - 2)
