"""C08 - execution never crashes: failures surface as runtime errors.

Monitor: panic hook + catch_unwind in the probe, worker exit status (aborts,
signals), and exit status / stderr of the real binary (both build profiles)
for everything that touches stdin, exit() or filter mode. Every hit in the
probe is confirmed on the real binary before it is reported."""
import math
import os
import shutil
import struct

from . import core, sanit
from .core import Case
from .val import Arr, Builtin, Byte, Char, Closure, ErrObj, I64_MAX, I64_MIN, Map, Opaque, kind, lit

BUILTINS = ["len", "puts", "first", "last", "rest", "push", "pop", "get", "contains", "insert", "str", "int", "float",
            "char", "byte", "time", "flush", "format", "print", "println", "eprint", "eprintln", "round",
            "tolower", "toupper", "open", "read", "write", "read_to_string", "decode_utf8", "encode_utf8", "read_line",
            "get_errno", "strerror", "is_error", "sort", "chars", "join", "rand", "pcap_open", "pcap_stream",
            "pcap_read_next", "pcap_read_all", "pcap_write"]
# exit, sleep, input are exercised separately (process exit, unbounded waiting, stdin)


def one_packet_pcap(n=1):
    gh = struct.pack("<IHHiIII", 0xA1B2C3D4, 2, 4, 0, 0, 65535, 1)
    out = gh
    for i in range(n):
        data = bytes([0, 1, 2, 3, 4, 5, 6, 7, 8, 9, 10, 11, 8, 0, 0x45, 0, 0, 40, 0, 0, 0, 0, 64, 6, 0, 0,
                      10, 0, 0, 1, 10, 0, 0, 2, 0, 80, 0, 81] + [i] * 30)
        out += struct.pack("<IIII", 1 + i, 2, len(data), len(data)) + data
    return out


def value_sources(work):
    """source texts of argument values of every kind, incl. live handles on scratch files"""
    rfile = os.path.join(work, "r.txt")
    wfile = os.path.join(work, "w.bin")
    pfile = os.path.join(work, "p.pcap")
    with open(rfile, "wb") as f:
        f.write(b"line one\nline two\n\xff\xfe binary\n" + b"x" * 5000)
    with open(pfile, "wb") as f:
        f.write(one_packet_pcap(3))
    vals = [0, 1, -1, 2, 7, 63, 64, 65, 100, 255, 256, 4096, 65535, 65536, 0xD800, 0x10FFFF, 0x110000, 1 << 31, 1 << 32,
            I64_MAX, I64_MIN, I64_MIN + 1,
            0.0, -0.0, 1.5, -1.5, 1e308, -1e308, 5e-324, 1.7976931348623157e308, -1.7976931348623157e308, 8.98846567431158e307, 2.2250738585072014e-308,
            9007199254740993.0, 9.223372036854775807e18, 1.8446744073709552e19, 0.1 + 0.2, 4.9e-324, math.nan, math.inf, -math.inf, 255.5, 1e19, -1e19, 4294967296.5,
            Byte(0), Byte(1), Byte(127), Byte(128), Byte(255), Char("a"), Char("é"), Char(0x10FFFF), Char(0),
            "", "s", "é", "{}", "{", "}", "{:", "{0", "{:>}", "{:999999999999999999999}", "{99999999999999999999}",
            "{18446744073709551615}", "{18446744073709551614}", "{18446744073709551616}", "{9223372036854775807}", "{9223372036854775808}",
            "{4294967295}", "{4294967296}", "{18446744073709551615:>3}", "{0}{18446744073709551615}", "{:.18446744073709551615}", "{:x}", "{:5b}",
            "{:4}", "{:>6}", "{:*<5}", "{:1}", "{0:7}{0:3}", "ééé", "Ålbæk", "日本語テキスト", "\U0001F496\U0001F496", "é",
            "r", "w", "a", "x", "rw", "/", "/nonexistent/dir/file", "abc\ndef", "9" * 40, "1e400", "-0", "0x10", "  12  ",
            True, False, None,
            Arr([]), Arr([1]), Arr([1, "a", 2.5]), Arr([Byte(255), Byte(0)]), Arr([Char("a"), Char("b")]),
            Arr([Arr([Arr([1])])]), Arr([math.nan, 1.0, 2]), Arr([None, None]), Arr(list(range(40))),
            Arr([1, 2.0, "3", Char("4"), Byte(5), True, None]),
            Map([]), Map([(1, 2)]), Map([("a", Arr([1]))]), Closure(), Builtin("len"), Builtin("exit")]
    srcs = [lit(v) for v in vals]
    srcs += ["decode_utf8([byte(255)])", "stdout", "stderr",
             "open(%s)" % lit(rfile), "open(%s, \"w\")" % lit(wfile), "open(%s, \"a\")" % lit(wfile),
             "open(\"/nonexistent\")", "pcap_open(%s)" % lit(pfile), "pcap_open(%s, \"w\")" % lit(wfile + ".pcap"),
             "pcap_read_next(pcap_open(%s))" % lit(pfile), "pcap_read_next(pcap_open(%s)).eth" % lit(pfile),
             "pcap_read_next(pcap_open(%s)).eth.ipv4" % lit(pfile), "pcap_read_next(pcap_open(%s)).eth.ipv4.tcp" % lit(pfile),
             lit(rfile), lit(wfile), lit(pfile), lit(work)]
    return srcs


RECURSION = [
    "fn f() { f() } f()",
    "fn f() { f(); 1 } f()",
    "fn f(n) { f(n + 1) } f(0)",
    "fn f(n) { 1 + f(n + 1) } f(0)",
    "fn f(a, b) { f(b, a) } f(1, 2)",
    "fn f(a, b, c) { let x = a; let y = b; f(x, y, c) } f(1, 2, 3)",
    "fn f(n) { g(n) } fn g(n) { f(n) } f(1)",
    "let f = fn(n) { if n == 0 { 0 } else { f(n - 1) } }; f(%d)",
    "fn f(n) { if n == 0 { 0 } else { 1 + f(n - 1) } } f(%d)",
    "fn f(n) { let a = [n, n]; if n == 0 { 0 } else { f(n - 1) + a[0] } } f(%d)",
    "fn f(n, a, b, c, d, e) { if n == 0 { 0 } else { f(n - 1, a, b, c, d, e) } } f(%d, 1, 2, 3, 4, 5)",
    "fn f(n) { let g = fn() { f(n - 1) }; if n == 0 { 0 } else { g() } } f(%d)",
    "fn f(n) { if n == 0 { return 0; } return f(n - 1); } f(%d)",
    "fn f(n) { match n { 0 => 0, _ => f(n - 1) } } f(%d)",
    "fn f(n) { [f, n][0](n) } f(%d)",
]
DEPTHS = [1, 2, 100, 1000, 1360, 1364, 1365, 1366, 1370, 2040, 2045, 2046, 2047, 2048, 2049, 2050, 4090, 4093, 4094, 4095,
          4096, 4097, 4098, 5000, 100000]


def many_locals():
    out = []
    for n in (10, 100, 254, 255, 256, 257, 300, 1000, 4000, 4096, 5000):
        body = " ".join("let v%d = %d;" % (i, i) for i in range(n))
        out.append("fn f() { %s v0 + v%d } f()" % (body, n - 1))
        out.append("fn f(x) { %s if x == 0 { 0 } else { f(x - 1) } } f(3)" % body)
    # frames with many locals stacked right up to the operand-stack limit: the last frame's slots straddle it
    for n in (3, 10, 100, 200, 254):
        body = " ".join("let v%d = x + %d;" % (i, i) for i in range(n))
        per = n + 2
        for d in sorted(set([4096 // per - 2, 4096 // per - 1, 4096 // per, 4096 // per + 1, 4096 // (n + 1), 4096 // (n + 1) + 1, 4096 // n + 1])):
            out.append("fn f(x) { %s if x == 0 { v%d } else { f(x - 1) + v%d } } f(%d)" % (body, n - 1, n // 2, d))
    for n in (100, 1000, 5000):
        out.append(" ".join("let g%d = %d;" % (i, i) for i in range(n)) + " g0 + g%d" % (n - 1))
    for n in (10, 100, 254, 255, 256, 257, 300, 500):
        out.append("fn f(%s) { a0 } f(%s)" % (", ".join("a%d" % i for i in range(n)), ", ".join("1" for _ in range(n))))
        out.append("puts(%s)" % ", ".join("1" for _ in range(n)))
        out.append("let a = [%s]; len(a)" % ", ".join("1" for _ in range(n)))
        out.append("1" + " + 1" * n)
        out.append("let x = " + "[" * min(n, 60) + "1" + "]" * min(n, 60) + ";")
    out.append("let a = []; let i = 0; while i < 5000 { a = [a]; i = i + 1; } len(a)")
    out.append("let a = []; let i = 0; while i < 300 { a = [a]; i = i + 1; } str(a)")
    out.append("let a = []; let i = 0; while i < 300 { a = [a]; i = i + 1; } a == a")
    out.append("let a = [1]; let m = map {a: 1}; push(a, 2); m[a]")
    return out


FILTER_PROGRAMS = [
    "@ true { return; }", "@ true { return 1; }", "@ { return; }", "@ end { return 5; }",
    "@ true { break; }", "@ true { continue; }", "@ 1 { loop { break; } }", "@ true { let a = 1; a = a / 0; }",
    "fn f() { @ true { puts(1); } } f()", "{ @ true }", "@ $0", "@ $1", "@ $11", "@ $12 { }", "@ $99", "@ $(-1)",
    "@ $a", "let a = 5; @ $a", "@ true { puts($0, $1, $2, $3, $4, $5, $6, $7, $8, $9, $10, $11); }",
    "@ true { puts(($2).src, ($2).payload, ($3).flags); }", "@ true { ($1).src = 5; }", "@ true { $1 = 5; }", "@ true { ($0).eth = 5; puts($0); }",
    "@ true { ($0).eth = 5; ($1); }", "@ true { ($1).ipv4 = 5; pcap_write(pcap_stream(stdout), $0); }",
    "@ NP > 1 @ NP > 2 @ end { puts(NP, PL, WL, TSS, TSU) }", "@ PL / 0", "@ \"x\"", "@ [] { }", "@ ($1).type == 0x800",
    "@ true { let f = fn() { $1 }; puts(f()); }", "@ true { fn g() { return $2; } puts(g()); }",
    "let p = $0; puts(p); @ true", "puts($1);", "@ true { exit(3); }", "@ true { let a = []; loop { push(a, $0); if len(a) > 50 { break; } } }",
    "@ (fn() { true })()", "@ true { @ true { puts(1); } }", "@ end { @ end { } }", "@ end { } @ end { }",
    # filter statements written inside a function: whatever they mention (locals, parameters, captured variables, globals)
    "fn f() { let x = 1; @ true { println(\"{}\", x); } } f();", "fn f(a) { @ true { puts(a); } } f(5);", "let g = 7; fn f() { @ true { puts(g); } } f();",
    "fn f(a) { @ a > 1 } f(5);", "fn f() { let x = [1]; @ end { push(x, 2); puts(x); } } f();", "fn mk(n) { fn() { @ true { puts(n); } } } mk(3)();",
    "fn f() { let x = 1; @ true { x = x + 1; } x } puts(f());", "fn f(a, b) { let c = a + b; @ c > 0 { let d = c; puts(d, a, b); } } f(1, 2);",
    "fn f() { let i = 0; while i < 2 { @ true { puts(i); } i = i + 1; } } f();", "let t = fn(q) { @ q }; t(true);",
    # return must stay rejected wherever it stands in a filter action, also after nested constructs
    "@ true { @ true { } return; }", "@ true { @ true { puts(1); } if PL < 100 { return; } puts(2); }", "@ end { @ end { } return 1; }",
    "@ true { fn g() { return 1; } return g(); }", "@ true { let f = fn() { return 2; }; f(); return; }", "@ true { { return; } }",
    "@ true { loop { return; } }", "@ true { match 1 { 1 => { return; }, _ => { } } }", "@ true { if true { @ true { } } return; }",
    "fn outer() { @ true { return 5; } } outer();", "@ true { @ true { @ true { } } return; }",
    # filters keep running on the VM that a failed prelude or a failed action left behind
    "fn f() { f() } f(); @ true { }", "fn f() { f() } f(); @ true @ end { puts(NP); }", "fn f() { f() } @ true { f(); } @ end { puts(1); }",
    "fn f() { f() } @ end { f(); }", "1 / 0; @ true { puts(NP); } @ end { puts(NP); }",
    "fn f(n) { if n == 0 { 1 / 0 } else { f(n - 1) } } @ true { f(100); } @ end { puts(\"end\"); }",
    "fn f(n) { if n == 0 { 1 / 0 } else { f(n - 1) } } f(4000); @ true @ end { let z = 3; puts(z); }",
    "fn f(n) { let a = 1; let b = 2; let c = 3; if n == 0 { [1][5] } else { f(n - 1) + a + b + c } } f(800); @ true { let x = 1; let y = 2; puts(x + y); }",
    "let a = [1, 2, 3]; fn g() { a[9] } @ true { let x = 1; let y = 2; g(); } @ end { let z = 3; puts(z); }",
    "fn f(n) { 1 + f(n + 1) } @ NP == 2 { f(0); } @ true { puts(NP); } @ end { puts(\"end \", NP); }",
    "fn deep(n) { if n == 0 { 0 } else { deep(n - 1) } } deep(4090); @ true { deep(4090); } @ end { deep(4094); deep(4095); deep(4096); }",
    "let big = 1; fn f() { f() } f(); @ true { let l1 = 1; let l2 = 2; let l3 = 3; let l4 = 4; puts(l1 + l4); }",
]


# operations other than printing on containers that contain themselves (printing is excluded by the property itself)
CYC_SETUP = ("let a = [1]; push(a, a); let b = [1]; push(b, b); let m = map {1: 2}; insert(m, 2, m); "
             "let n = map {1: 2}; insert(n, 2, n); ")
CYC_OPS = [
    ("eq-same-array", "a == a"), ("eq-same-map", "m == m"), ("eq-arrays", "a == b"), ("ne-arrays", "a != b"), ("eq-maps", "m == n"),
    ("eq-nested", "[a] == [b]"), ("eq-element", "a[1] == b"), ("eq-wrapped-same", "[a] == [a]"), ("order-arrays", "a < b"),
    ("insert-key", "insert(map {}, a, 1)"), ("map-literal-key", "map {a: 1}"), ("get-key", "get(map {}, a)"), ("contains-key", "contains(map {}, a)"),
    ("map-as-key", "insert(m, n, 1)"), ("sort", "sort([a, b]); 1"), ("match", "match a { 1 => 1, _ => 2 }"), ("concat", "a + b; 1"),
    ("len", "len(a)"), ("first", "first(a); 1"), ("last", "last(a); 1"), ("rest", "rest(a); 1"), ("push", "push(a, b); 1"), ("pop", "pop(a); 1"),
    ("truthiness", "if a { 1 } else { 2 }"), ("not", "!a"), ("and", "a && m"), ("index", "a[1][1][1][0]"), ("map-index", "m[2][2][1]"),
    ("set-index", "a[0] = a; 1"), ("is_error", "is_error(a)"), ("rebind", "a = null; m = null; 1"), ("call-arg", "(fn(x) { len(x) })(a)"),
    ("closure-capture", "fn mk() { let c = [1]; push(c, c); fn() { len(c) } } mk()()"), ("array-of-both", "len([a, b, m, n])"),
]


def run(chk):
    rng = chk.rng
    quick = chk.tier == "quick"
    chk.rule = ("builtin x arity 0..4 x argument values of every kind (boundary numbers, format strings, live file/pcap/packet "
                "handles), recursion depth ladders around the frame/stack limits, many locals/globals/arguments, ill-typed "
                "generated programs, filter programs end to end; distinct = distinct (workload class, builtin or shape, "
                "argument kinds, outcome)")
    chk.assumptions = ["exclusions of the property are honoured: no allocation beyond the machine (repetition counts and sizes "
                       "capped), no printing of self-containing containers",
                       "sleep with a negative or huge argument and exit between a write and the end of the program are not judged"]
    chk.floor = 8000
    chk.rule += '; plus every format text x every value, header fields assigned values of every kind and written back, every layer of random frames and of their truncations read and written back, 34 non-printing operations on self-containing containers, filter programs after a failed prelude / action and inside functions, every operator on every ordered pair of kind representatives (zeros of every numeric kind)'
    work = core.scratch_dir()
    suspects = []   # (src, result, cls)
    try:
        srcs = value_sources(work)
        jobs = []
        asts = {}
        firsts = [x for x in srcs if x.startswith("[") or x.startswith("map") or x.startswith("open(") or x.startswith("pcap_")
                  or x in ("\"\"", "\"s\"", "\"{}\"", "stdout", "0", "1.5", "null", "true", "fn() { 1 }", "len", "'a'", "byte(0)")]
        seconds = [lit(v) for v in (0, 1, -1, 2, 255, 256, 65536, I64_MAX, I64_MIN, -4096, 0.5, -0.0, math.nan, math.inf, "", "r", "w", "{}", None, True)] + ["[]", "[1, 2, 3]", "map {}", "'a'", "byte(255)"]
        for b in BUILTINS:
            jobs.append(("builtin", b, "%s()" % b))
            for s in srcs:
                jobs.append(("builtin", b, "%s(%s)" % (b, s)))
            # structured pairs: every kind representative first, every boundary number / odd string second
            for a in firsts:
                for b2 in seconds:
                    jobs.append(("builtin", b, "%s(%s, %s)" % (b, a, b2)))
            n2 = 120 if quick else 2500
            for _ in range(n2):
                jobs.append(("builtin", b, "%s(%s, %s)" % (b, rng.choice(srcs), rng.choice(srcs))))
            for _ in range(60 if quick else 600):
                jobs.append(("builtin", b, "%s(%s, %s, %s)" % (b, rng.choice(srcs), rng.choice(srcs), rng.choice(srcs))))
            for _ in range(10 if quick else 100):
                jobs.append(("builtin", b, "%s(%s)" % (b, ", ".join(rng.choice(srcs) for _ in range(4)))))
        # the format mini-language: every format text with every argument value
        fmts = [x for x in srcs if x.startswith("\"{") or x.startswith("\"}")]
        for b in ("format", "print", "println", "eprint", "eprintln"):
            for f in fmts:
                for x in srcs:
                    jobs.append(("format", b, "%s(%s, %s)" % (b, f, x)))
        # chains: results of builtins flowing into other builtins and operators
        for _ in range(3000 if quick else 60000):
            a, b = rng.choice(BUILTINS), rng.choice(BUILTINS)
            op = rng.choice(["+", "-", "*", "/", "%", "<", "==", "&&", "<<", "&"])
            jobs.append(("chain", a + "/" + b, "%s(%s(%s)) %s %s" % (a, b, rng.choice(srcs), op, rng.choice(srcs))))
        # every operator on every ordered pair of representatives of each kind, zeros of every numeric kind included
        # (what they yield is C09's business; here they must end normally)
        reps = [lit(v) for v in (0, 1, -1, 2, 63, 64, 65, I64_MAX, I64_MIN, 0.0, -0.0, 1.5, math.nan, math.inf, "", "a", None, True, False)] + [
            "byte(0)", "byte(1)", "byte(255)", "'a'", "char(0)", "[]", "[0]", "map {}", "fn() { 0 }", "len"]
        for op in ("+", "-", "*", "/", "%", "<<", ">>", "&", "|", "^", "<", "<=", ">", ">=", "==", "!=", "&&", "||"):
            for a in reps:
                for b2 in reps:
                    jobs.append(("operator", op, "%s %s %s" % (a, op, b2)))
                    if op in ("/", "%", "<<", ">>") and not quick:
                        jobs.append(("operator", op, "let x = %s; let y = %s; x = x %s y; x %s y" % (a, b2, op, op)))
        for op in ("-", "!", "~"):
            for a in reps:
                jobs.append(("operator", "u" + op, "%s(%s)" % (op, a)))
        for _ in range(2000 if quick else 30000):
            a = rng.choice(srcs)
            jobs.append(("index", "", rng.choice(["%s[%s]", "%s[%s] = 1", "(%s).%s" % ("%s", rng.choice(["src", "payload", "eth", "type", "magic", "len", "flags"])) + " // %s",
                                                    "-%s + ~%s", "!%s || %s", "let q = %s; q[0] = q; len(q) // %s",
                                                    "match %s { 1 => 1, 2..5 => 2, _ => %s }",
                                                    "if %s { 1 } else { %s }", "(%s)(%s)"]) % (a, rng.choice(srcs))))
        # header fields assigned values of every kind (incl. lengths that contradict the capture), then the packet is
        # printed and written back
        from . import pkt as _pkt
        frames = {
            "eth.ipv4.tcp": _pkt.eth(b"\x02" * 6, b"\x04" * 6, _pkt.ET_IPV4, _pkt.ipv4(b"\x0a\0\0\1", b"\x0a\0\0\2", 6, _pkt.tcp(1, 2, b"pay", 3, 4, 7), 6)),
            "eth.ipv4.udp": _pkt.eth(b"\x02" * 6, b"\x04" * 6, _pkt.ET_IPV4, _pkt.ipv4(b"\x0a\0\0\1", b"\x0a\0\0\2", 17, _pkt.udp(5, 6, b"data"))),
            "eth.ipv6.udp": _pkt.eth(b"\x02" * 6, b"\x04" * 6, _pkt.ET_IPV6, _pkt.ipv6(bytes(16), bytes(15) + b"\1", 17, _pkt.udp(5, 6, b"data"))),
            "eth.vlan.ipv4": _pkt.eth(b"\x02" * 6, b"\x04" * 6, _pkt.ET_VLAN, _pkt.vlan(1, 0, 5, _pkt.ET_IPV4, _pkt.ipv4(b"\x0a\0\0\1", b"\x0a\0\0\2", 1, b"icmp"))),
        }
        afile = {}
        for nm, fr in frames.items():
            afile[nm] = os.path.join(work, "asg-%s.pcap" % nm.replace(".", "-"))
            with open(afile[nm], "wb") as f:
                f.write(_pkt.pcap_file([(1, 2, fr)]))
        avals = [lit(v) for v in (0, 1, 4, 5, 6, 15, 16, 255, 256, 65535, 65536, -1, I64_MAX, I64_MIN, 1.5, "", "1.2.3.4", "1:2:3:4:5:6:7:8:9::", "::1:2:3:4:5:6:7:8:9",
                                  "1:2:3:4:5:6:7:8:9:a::", "1::2:3:4:5:6:7:8:9", "::", "aa:bb:cc:dd:ee:ff", "é", None, True)] + ["[1]", "map {}", "byte(7)", "'c'", "p", "p.eth"]
        outw = os.path.join(work, "asg-out.pcap")
        for nm in frames:
            layers = nm.split(".")
            for d in range(len(layers)):
                path_ = "p." + ".".join(layers[:d + 1])
                for prop in list(_pkt.FIELDS[layers[d]].keys()) + ["payload"]:
                    for v in avals:
                        jobs.append(("assign", layers[d] + "." + prop,
                                     "let p = pcap_read_next(pcap_open(%s)); let L = %s; L.%s = %s; let o = pcap_open(%s, \"w\"); pcap_write(o, p); write(o, p); len(str(L.%s));"
                                     % (lit(afile[nm]), path_, prop, v, lit(outw), prop)))
            for prop in ("sec", "usec", "caplen", "wirelen", "payload", "eth"):
                for v in avals[:14]:
                    jobs.append(("assign", "packet." + prop, "let p = pcap_read_next(pcap_open(%s)); p.%s = %s; pcap_write(pcap_open(%s, \"w\"), p); p.eth;" % (lit(afile[nm]), prop, v, lit(outw))))
        for tmpl in RECURSION:
            if "%d" in tmpl:
                for d in DEPTHS:
                    jobs.append(("recursion", tmpl[:30], tmpl % d))
            else:
                jobs.append(("recursion", tmpl[:30], tmpl))
        for s in many_locals():
            jobs.append(("many", s[:24], s))
        for name, op in CYC_OPS:
            jobs.append(("cyclic", name, CYC_SETUP + "let r = " + op + ";"))
        try:
            from . import gen
            for _ in range(1500 if quick else 40000):
                prog = gen.random_program(rng, illtyped=True)
                text = gen.PRELUDE + gen.render(prog)[0]
                asts[text] = prog
                jobs.append(("illtyped", "", text))
        except ImportError:
            pass
        cases = []
        # packets: every layer of random frames and of their truncations read and written back (crash-freedom only here;
        # the values are C15/C16's business)
        from . import c15
        pcases, _ = c15.build_cases(rng, work, 60 if quick else 1500, quick)
        for c in pcases:
            c.id = "pk" + c.id
            jobs.append(("packets", "", c.src))
            c.id = "j%d" % (len(jobs) - 1)
        routed = []   # run through the binary because they touch stdin / exit
        for i, (cls, tag, src) in enumerate(jobs):
            if cls == "packets":
                cases.append(Case("j%d" % i, src, {"steps": 2000000}))
            elif "stdin" in src or "input" in src or "exit" in src:
                routed.append(i)
            else:
                cases.append(Case("j%d" % i, src, {"steps": 400000}))
        res = core.run_cases(cases)
        # sanitizer sweeps over the same corpus (DESIGN section 8): thorough tier, or as soon as `unsafe` appears in the tree
        unsafe_hits = sanit.want_quick()
        if unsafe_hits:
            chk.count("unsafe code present: %s" % ", ".join(unsafe_hits[:5]))
        if not quick or unsafe_hits:
            sanit.asan_sweep(chk, cases, "c08", limit=(150000 if not quick else 30000))
        if not quick:
            sanit.miri_sweep(chk, [c for c in cases if len(c.src) < 200], "c08", limit=48)
        for i, (cls, tag, src) in enumerate(jobs):
            r = res.get("j%d" % i)
            if r is None:
                continue
            oc = r.get("outcome")
            if oc in ("ok", "rt_error", "budget", "parse_errors", "compile_error"):
                msg = ""
                if oc == "rt_error":
                    msg = core.msg_class(r["rt"]["msg"])[:30]
                chk.observed((cls, tag, oc, msg))
                if i % 2503 == 0:
                    chk.sample({"class": cls, "program": core.short(src, 160), "outcome": oc, "rt": r.get("rt")})
            elif oc in ("panic", "died", "hang"):
                suspects.append((src, r, cls, tag))
            else:
                chk.inconc("probe outcome %s" % oc)
        # stdin / exit programs go straight to the binary
        path = os.path.join(work, "c.p2")
        for k, i in enumerate(routed):
            if quick and k % 4:
                continue
            cls, tag, src = jobs[i]
            with open(path, "w", encoding="utf-8") as f:
                f.write(src)
            rr = core.run_binary([path], stdin_data=b"some input\nmore\n", release=(k % 2 == 1), timeout=30, step_budget=400000)
            if rr["timeout"]:
                chk.inconc("timeout (stdin/exit program)")
                continue
            chk.observed((cls, tag, "binary", rr["rc"]))
            if core.crashed(rr):
                report_crash(chk, src, rr, cls)
        # exit statuses
        for code in (0, 1, 2, 3, 100, 255, 256, -1, I64_MAX):
            with open(path, "w") as f:
                f.write("puts(\"before\"); exit(%s); puts(\"after\");" % lit(code))
            rr = core.run_binary([path], timeout=20)
            chk.observed(("exit", code & 0xFF))
            if rr["rc"] != (code & 0xFF) or b"after" in rr["out"]:
                chk.violation("exit-status|%s" % (code if abs(code) < 1000 else "big"),
                              "exit(%s) ended with status %s, stdout %r" % (code, rr["rc"], rr["out"][:40]),
                              {"src": open(path).read(), "rc": rr["rc"], "stderr": rr["err"].decode("utf-8", "replace")[-300:]})
        pcap_early = os.path.join(work, "early.pcap")
        with open(pcap_early, "wb") as f:
            f.write(one_packet_pcap(2))
        # printing while stdout / stderr cannot be written (full device) must not abort the interpreter either
        for k, prog in enumerate(["puts(\"x\" * 20000); puts(1);", "print(\"{}\", \"y\" * 20000);", "println(\"{}\", \"z\" * 20000);",
                                  "let i = 0; while i < 3000 { puts(\"line \", i); i = i + 1; }", "puts(); puts([1, 2, 3], map {1: 2});",
                                  "write(stdout, \"w\" * 20000); flush(stdout); puts(\"after\");", "input(\"prompt> \");"]):
            with open(path, "w") as f:
                f.write(prog)
            for rel in (False, True):
                with open("/dev/full", "wb") as full:
                    rr = core.run_binary([path], stdin_data=b"answer\n", release=rel, timeout=30, stdout_file=full)
                if rr["timeout"]:
                    chk.inconc("timeout (full stdout)")
                    continue
                chk.observed(("full-stdout", k, rel))
                if core.crashed(rr):
                    report_crash(chk, prog + "   [stdout = /dev/full]", rr, "full-stdout")
        # the interpreter's own messages (diagnostics, runtime errors, the -c echo, the REPL banner) on streams that cannot be
        # written must not abort it either
        diag_progs = ["1 / 0;", "let = ;", "zz;", "eprintln(\"x\"); puts(1);", "puts(1); [1][5];", "fn f() { f() } f();", "break;", "\"unterminated", "1 +", "eprint(\"{}\", \"e\" * 5000); 1 / 0;"]
        for k, prog in enumerate(diag_progs):
            with open(path, "w") as f:
                f.write(prog + "\n")
            for rel in (False, True):
                for mode in ("script", "cmd", "filter", "repl"):
                    with open("/dev/full", "wb") as full:
                        if mode == "script":
                            rr = core.run_binary([path], release=rel, timeout=30, stderr_file=full)
                        elif mode == "cmd":
                            rr = core.run_binary(["-c", prog], release=rel, timeout=30, stderr_file=full)
                        elif mode == "filter":
                            with open(pcap_early, "rb") as fi:
                                rr = core.run_binary(["-c", prog + " @ true { 1 / 0; } @ end { zz2(); }".replace("zz2();", "[1][7];")], stdin_file=fi, release=rel, timeout=30, stderr_file=full)
                        else:
                            rr = core.run_binary([], stdin_data=(prog + "\n1 + 1\n").encode(), release=rel, timeout=30, stderr_file=full,
                                                 env=dict(os.environ, P2SH_VERIF_REPL_STDIN="1"))
                    if rr["timeout"]:
                        chk.inconc("timeout (full stderr)")
                        continue
                    chk.observed(("full-stderr", mode, k, rel))
                    if core.crashed(rr):
                        chk.violation("full-stderr|%s|rc=%s" % (mode, rr["rc"]), "with stderr on a full device the interpreter aborts (status %s) while reporting on the %s program %r" % (
                            rr["rc"], mode, prog), {"src": prog, "mode": mode})
        for k, prog in enumerate(["1 + 2", "\"text\"", "[1, 2, 3]", "let a = 5; a * 2", "puts(1); 7"]):
            for rel in (False, True):
                for mode in ("cmd", "repl"):
                    with open("/dev/full", "wb") as full:
                        if mode == "cmd":
                            rr = core.run_binary(["-c", prog], release=rel, timeout=30, stdout_file=full)
                        else:
                            rr = core.run_binary([], stdin_data=(prog + "\n2 + 2\n").encode(), release=rel, timeout=30, stdout_file=full,
                                                 env=dict(os.environ, P2SH_VERIF_REPL_STDIN="1"))
                    if rr["timeout"]:
                        chk.inconc("timeout (full stdout echo)")
                        continue
                    chk.observed(("full-stdout-echo", mode, k, rel))
                    if core.crashed(rr):
                        chk.violation("full-stdout-echo|%s|rc=%s" % (mode, rr["rc"]), "with stdout on a full device the interpreter aborts (status %s) when it echoes the value of %r (%s)" % (
                            rr["rc"], prog, mode), {"src": prog, "mode": mode, "stderr": rr["err"].decode("utf-8", "replace")[-300:]})
        # confirm in-process suspects on the real binary, both profiles
        seen = {}
        tried = {}
        for src, r, cls, tag in suspects:
            key = (r.get("outcome"), (r.get("panic") or {}).get("loc"), tag if cls == "cyclic" else None)
            if seen.get(key, 0) >= 2 or tried.get(key, 0) >= 40:
                continue
            tried[key] = tried.get(key, 0) + 1
            with open(path, "w", encoding="utf-8") as f:
                f.write(src)
            confirmed = None
            for rel in (False, True):
                rr = core.run_binary([path], release=rel, timeout=60, step_budget=400000)
                if core.crashed(rr):
                    confirmed = rr
                    break
            if confirmed is not None:
                err = confirmed["err"].decode("utf-8", "replace")
                why = excluded_by_property(src, err, asts)
                if why == "self-containing":
                    # a generated program that builds a self-containing container and then prints it (excluded by the
                    # property) or compares / hashes it (the known finding of the 'cyclic' family): not told apart here
                    seen[key] = seen.get(key, 0) + 1
                    report_crash(chk, src, confirmed, cls, r, tag="cyclic|generated-program")
                    continue
                if why:
                    chk.count("excluded: " + why)
                    continue
                seen[key] = seen.get(key, 0) + 1
                report_crash(chk, src, confirmed, cls, r, tag=(tag if cls == "cyclic" else None))
            elif r.get("outcome") == "hang":
                chk.inconc("probe hang not reproduced as a crash")
            elif r.get("outcome") == "died" and r.get("rc") == -6 and \
                    core.run_cases([Case("again", src, {"steps": 400000})], shards=1, timeout=120, probe_cmd=[core.PROBE_BIN]).get("again", {}).get("outcome") not in ("died", "panic", None):
                # the worker aborted under its address-space cap (core._cap_address_space) and gets through without it,
                # like the uncapped binary: a request between the cap and the installed memory, which says nothing
                # about the interpreter
                chk.count("not judged: allocation beyond the probe's address-space cap, fine without the cap")
            else:
                chk.inconc("probe-only %s" % r.get("outcome"))
        chk.count("probe_suspects", len(suspects))
        if os.environ.get("VF_DEBUG"):
            for src, r, cls, tag in suspects:
                print("SUSPECT", r.get("outcome"), (r.get("panic") or {}).get("loc"), core.short(src, 150).replace("\n", " "))
        # a program that fails at every stack depth in a range, followed by filter actions that declare locals (the filters run
        # on the stack the failure left behind)
        depth_progs = []
        depths = list(range(1, 700 if quick else 1400)) + [2040, 2047, 2048, 2049, 3000, 4000, 4090, 4093, 4094, 4095]
        for d in depths:
            # two frame sizes (3 and 5 slots per level), so that every stack height is left behind by some depth
            shape = ("fn f(n) { if n == 0 { 1 / 0 } else { 1 + f(n - 1) } } f(%d);" if d % 2 else "fn f(n, m) { if n == 0 { [1][m] } else { 1 + (2 + f(n - 1, m)) } } f(%d, 9);") % d
            # actions with few and with many locals: the more slots an action claims, the wider the band of leftover heights it reaches
            many = " ".join("let m%d = %s;" % (j, "PL" if j == 0 else "m%d + 1" % (j - 1)) for j in range(40 + d % 23))
            depth_progs.append(shape + " @ true { let l1 = NP; let l2 = PL; let l3 = l1 + l2; puts(l3 - l3); } @ true { " + many + " puts(m0 - m0); }"
                               " @ end { let e1 = 1; let e2 = [e1]; let e3 = 3; let e4 = 4; puts(len(e2)); }")
        pcap_d = os.path.join(work, "depth.pcap")
        with open(pcap_d, "wb") as f:
            f.write(one_packet_pcap(2))
        for k, prog in enumerate(depth_progs):
            with open(path, "w", encoding="utf-8") as f:
                f.write(prog)
            with open(pcap_d, "rb") as fi:
                rr = core.run_binary(["-s", path], stdin_file=fi, release=(k % 2 == 1), timeout=30, step_budget=400000)
            if rr["timeout"]:
                chk.inconc("timeout (depth program)")
                continue
            chk.observed(("fail-depth-then-filters", min(depths[k], 700) // 20, k % 2))
            if core.crashed(rr):
                report_crash(chk, prog, rr, "filter-after-failure")
        # filter programs end to end
        pcap = os.path.join(work, "in.pcap")
        with open(pcap, "wb") as f:
            f.write(one_packet_pcap(4))
        for k, prog in enumerate(FILTER_PROGRAMS):
            with open(path, "w", encoding="utf-8") as f:
                f.write(prog)
            for rel in (False, True):
                for extra in ([], ["-s"]):
                    with open(pcap, "rb") as fi:
                        rr = core.run_binary(extra + [path], stdin_file=fi, release=rel, timeout=30, step_budget=400000)
                    if rr["timeout"]:
                        chk.inconc("timeout (filter program)")
                        continue
                    chk.observed(("filter", k, rel, bool(extra), rr["rc"]))
                    if core.crashed(rr):
                        report_crash(chk, prog, rr, "filter")
    finally:
        shutil.rmtree(work, ignore_errors=True)


def mem_total():
    try:
        for l in open("/proc/meminfo"):
            if l.startswith("MemTotal:"):
                return int(l.split()[1]) * 1024
    except OSError:
        pass
    return 1 << 36


def excluded_by_property(src, err, asts):
    """The two exclusions C08 itself states: a request for more memory than the machine has, and printing a
    container that contains itself. -> reason or None"""
    import re
    if "capacity overflow" in err:
        return "allocation beyond the machine (more than isize::MAX bytes requested)"
    m = re.search(r"memory allocation of (\d+) bytes failed", err)
    if m and int(m.group(1)) > mem_total():
        return "allocation beyond the machine (one request larger than the installed memory)"
    if src in asts and ("overflowed its stack" in err or "stack overflow" in err):
        from . import gen
        ev = gen.evaluate(asts[src])
        if ev.get("cyclic"):
            # the program made a container contain itself before it died
            return "self-containing"
    return None


def report_crash(chk, src, rr, cls, probe_result=None, tag=None):
    err = rr["err"].decode("utf-8", "replace")
    loc = ""
    msg = ""
    import re
    m = re.search(r"panicked at ([^\n]+?):\n(.*)", err)
    if m:
        loc, msg = m.group(1).strip(), m.group(2).strip().split("\n")[0]
        sig = "panic|" + core.panic_site_sig(loc if loc.startswith("/") else os.path.join(core.REPO, loc), msg)
    else:
        sig = "death|rc=%s|%s" % (rr["rc"], core.msg_class(err[-60:]))
    if tag and cls == "cyclic":
        sig = "cyclic|%s|%s" % (tag, "stack-overflow" if "overflowed its stack" in err else sig)
    elif tag:
        sig = tag
    chk.violation(sig, "%s program crashes the interpreter (status %s): %s  [%s]" % (cls, rr["rc"], msg or err[-120:], core.short(src, 120)),
                  {"src": src, "rc": rr["rc"], "stderr": err[-600:], "probe": probe_result})
