"""C16 - header accessors decode the RFC-defined fields and layers.

Oracle: bit-offset tables for pcap / Ethernet / 802.1Q / IPv4 / IPv6 / TCP /
UDP (pkt.FIELDS), the dispatch table EtherType / protocol / next header ->
layer, reference address formatting. Scripts read properties from generated
pcap files (probe); $n dispatch runs end to end in filter mode (real binary)."""
import os
import shutil
import struct

from . import core, pkt
from .core import Case
from .val import canon_dump, lit, show

# how to reach a layer from a packet p (frames are built accordingly)
PATHS = {"eth": ".eth", "vlan": ".eth.vlan", "ipv4": ".eth.ipv4", "ipv6": ".eth.ipv6", "tcp": ".eth.ipv4.tcp", "udp": ".eth.ipv6.udp"}


def frame_for(rng, kind, hdr_bytes, tail=None):
    """a frame whose layer `kind` has exactly the header bytes hdr_bytes (payload random)"""
    tail = pkt.rand_bytes(rng, rng.choice([0, 3, 12])) if tail is None else tail
    m = pkt.rand_bytes(rng, 12)
    if kind == "eth":
        return hdr_bytes + tail, 0
    if kind == "vlan":
        return pkt.eth(m[:6], m[6:], pkt.ET_VLAN, hdr_bytes + tail), 14
    if kind == "ipv4":
        return pkt.eth(m[:6], m[6:], pkt.ET_IPV4, hdr_bytes + tail), 14
    if kind == "ipv6":
        return pkt.eth(m[:6], m[6:], pkt.ET_IPV6, hdr_bytes + tail), 14
    if kind == "tcp":
        ip = pkt.ipv4(pkt.rand_bytes(rng, 4), pkt.rand_bytes(rng, 4), pkt.P_TCP, hdr_bytes + tail)
        return pkt.eth(m[:6], m[6:], pkt.ET_IPV4, ip), 34
    if kind == "udp":
        ip = pkt.ipv6(pkt.rand_bytes(rng, 16), pkt.rand_bytes(rng, 16), pkt.P_UDP, hdr_bytes + tail)
        return pkt.eth(m[:6], m[6:], pkt.ET_IPV6, ip), 54
    raise ValueError(kind)


def set_bits(buf, off, width, value):
    v = int.from_bytes(buf, "big")
    total = len(buf) * 8
    shift = total - off - width
    mask = ((1 << width) - 1) << shift
    v = (v & ~mask) | ((value << shift) & mask)
    return v.to_bytes(len(buf), "big")


def valid_header(rng, kind):
    """random header bytes of layer `kind` that parse as that layer (IHL / data offset = 5, no options)"""
    n = pkt.MINLEN[kind]
    h = bytearray(pkt.rand_bytes(rng, n))
    if kind == "ipv4":
        h[0] = (h[0] & 0xF0) | 5
    if kind == "tcp":
        h[12] = (5 << 4) | (h[12] & 0x0F)
    return bytes(h)


def expected_value(kind, frame, start, name):
    v = pkt.field_value(kind, frame, start, name)
    if isinstance(v, tuple):
        return v
    if isinstance(v, bool):
        return ("bool", v)
    return ("i", v)


def matches(exp, got):
    """exp from expected_value, got = canon of the observed value"""
    if exp[0] in ("i", "bool"):
        if exp[0] == "i" and got[0] == "i" and exp[1] != got[1]:
            return False
        return got == exp
    if got[0] != "s":
        return False
    try:
        if exp[0] == "mac":
            return pkt.mac_bytes(got[1]) == exp[1] and len(got[1].split(":")) == 6
        if exp[0] == "ip4":
            return pkt.ip4_ref(got[1]) == exp[1]
        return pkt.ip6_ref(got[1]) == exp[1]
    except Exception:
        return False


def tcp_flags_ok(word12, got):
    """RFC 9293 has 8 control bits and 4 reserved bits: 8, 9 or 12 bits are accepted, never the data offset"""
    return got[0] == "i" and got[1] in (word12 & 0xFF, word12 & 0x1FF, word12 & 0xFFF)


def wire_of(k, fr):
    """wire length written into the record of the k-th frame of a batch"""
    n = len(fr)
    return [n, n + 40, n + 1454, max(0, n - 11), 0, n, 65535 + n][k % 7]


def run(chk):
    rng = chk.rng
    quick = chk.tier == "quick"
    chk.rule = ("per field: every value (fields <= 16 bits, thorough) / boundary patterns + 256 random values (quick), wider fields "
                "random, each embedded in random neighbouring bits; all fields of random frames; payload offsets with every IHL and "
                "data offset; pcap global-header and record-header properties; $n and layer dispatch over all 65536 EtherTypes, 256 "
                "protocols and 256 next headers (filter mode, real binary); distinct = distinct (layer, property, value class)")
    chk.assumptions = ["TCP 'flags': the low 8, 9 or 12 bits of the offset/flags word are all accepted, the data-offset nibble must not leak",
                       "payload ends are only judged on frames whose length fields agree with the capture; payload starts always",
                       "address text is compared through reference parsers (ipaddress module, colon-separated MAC)"]
    chk.floor = 5000
    chk.rule += '; plus every truncation length of 40-1200 decoded frames, $n on a fresh packet for every n (one copy per n) and in descending order, record wire lengths above / below / equal to the captured length'
    work = core.scratch_dir()
    try:
        cases = []
        meta = {}
        ci = 0
        # ---- (1) per-field value sweeps
        for kind, fields in pkt.FIELDS.items():
            for name, (off, width, fk) in fields.items():
                if name == "len" and kind == "tcp":
                    pass
                if width <= 16 and not quick:
                    values = list(range(1 << width))
                else:
                    values = sorted(set([0, 1, (1 << width) - 1, (1 << width) - 2, 1 << (width - 1), (1 << (width - 1)) - 1,
                                         int("55" * 16, 16) & ((1 << width) - 1), int("AA" * 16, 16) & ((1 << width) - 1)] +
                                        [1 << b for b in range(width)] + [rng.getrandbits(width) for _ in range(256)]))
                recs = []
                exps = []
                for k, v in enumerate(values):
                    h = valid_header(rng, kind)
                    if not (kind == "ipv4" and name == "ihl") and not (kind == "tcp" and name in ("dataoff", "len")):
                        h = set_bits(h, off, width, v)
                    else:
                        # the header-length fields decide how long the header is: build the frame with that many option bytes
                        if v < 5:
                            continue
                        h = set_bits(h, off, width, v) + pkt.rand_bytes(rng, (v - 5) * 4)
                    fr, start = frame_for(rng, kind, h)
                    recs.append((k & 0xFFFFFFFF, 0, fr))
                    exps.append((fr, start))
                inp = os.path.join(work, "f%d.pcap" % ci)
                with open(inp, "wb") as f:
                    f.write(pkt.pcap_file(recs))
                src = ("let __o = []; let ps = pcap_read_all(pcap_open(%s)); let i = 0;\nwhile i < len(ps) { push(__o, ps[i]%s.%s); i = i + 1; }"
                       % (lit(inp), PATHS[kind], name))
                cid = "v%d" % ci
                ci += 1
                cases.append(Case(cid, src, {"globals": "__o", "steps": 50000000}))
                meta[cid] = ("sweep", kind, name, exps)
        # ---- (2) all fields + payload of random frames, navigation following the dispatch table
        n_rand = 400 if quick else 8000
        frames = []
        for _ in range(n_rand):
            fr, desc = pkt.rand_frame(rng, well_formed=rng.random() < 0.8)
            frames.append(fr)
        # every truncation of some of them: the layer whose header is cut (at any byte, fixed part or options) must be an
        # error object, everything before it must still decode
        for fr in list(frames[:(40 if quick else 1200)]):
            for c in range(len(fr)):
                frames.append(fr[:c])
        B = 20
        for bi in range(0, len(frames), B):
            batch = frames[bi:bi + B]
            inp = os.path.join(work, "r%d.pcap" % bi)
            with open(inp, "wb") as f:
                # the wire length is what the record says: above, equal to, below the captured length, zero
                f.write(pkt.pcap_file([(k, k * 3, fr, None, wire_of(k, fr)) for k, fr in enumerate(batch)]))
            lines = ["let __o = []; let ps = pcap_read_all(pcap_open(%s));" % lit(inp)]
            plan = []
            for k, fr in enumerate(batch):
                layers = pkt.decode(fr)
                v = "ps[%d]" % k
                expr = v
                lines.append("push(__o, [%s.sec, %s.usec, %s.nsec, %s.caplen, %s.wirelen, %s.payload]);" % ((v,) * 6))
                plan.append(("packet", k, None, None))
                for li, l in enumerate(layers):
                    if l[0] in ("error", "malformed"):
                        kindname = l[1]
                        expr = expr + "." + kindname
                        lines.append("push(__o, is_error(%s));" % expr)
                        plan.append(("errlayer", k, kindname, l[2]))
                        break
                    kind, start = l
                    expr = expr + "." + kind
                    props = list(pkt.FIELDS[kind].keys()) + ["payload"]
                    lines.append("push(__o, [%s]);" % ", ".join("%s.%s" % (expr, p) for p in props))
                    plan.append(("layer", k, kind, start, props))
            cid = "r%d" % bi
            cases.append(Case(cid, "\n".join(lines), {"globals": "__o", "steps": 5000000}))
            meta[cid] = ("frames", batch, plan)
        # ---- (3) pcap global header properties
        hdrs = []
        for _ in range(60 if quick else 2000):
            h = dict(magic=rng.choice([pkt.MAGIC_US, pkt.MAGIC_NS]), major=rng.getrandbits(16), minor=rng.getrandbits(16),
                     thiszone=rng.choice([0, -1, 3600, -(1 << 31), (1 << 31) - 1, rng.randint(-(1 << 31), (1 << 31) - 1)]),
                     sigfigs=rng.getrandbits(32), snaplen=rng.choice([0, 64, 65535, (1 << 32) - 1, rng.getrandbits(32)]),
                     linktype=rng.choice([0, 1, 101, 113, 228, rng.getrandbits(32)]))
            hdrs.append(h)
        lines = ["let __o = [];"]
        for k, h in enumerate(hdrs):
            p = os.path.join(work, "h%d.pcap" % k)
            with open(p, "wb") as f:
                f.write(pkt.pcap_header(**h))
            lines.append("let h%d = pcap_open(%s); push(__o, [h%d.magic, h%d.major, h%d.minor, h%d.thiszone, h%d.sigfigs, h%d.snaplen, h%d.linktype]);"
                         % ((k, lit(p)) + (k,) * 7))
        cases.append(Case("hdrs", "\n".join(lines), {"globals": "__o", "steps": 5000000}))
        res = core.run_cases(cases, timeout=900)

        def bad_run(cid, r):
            if r is None:
                chk.inconc("missing result")
                return True
            if r.get("outcome") == "panic":
                chk.violation("panic|" + core.panic_site_sig(r["panic"]["loc"], r["panic"]["msg"]), "accessor script panics: %s" % r["panic"]["msg"],
                              {"case": cid, "panic": r["panic"]})
                return True
            if r.get("outcome") != "ok":
                m = meta.get(cid, ("hdrs",))
                chk.violation("accessor-raises|%s|%s" % (m[0], core.msg_class((r.get("rt") or {}).get("msg", r.get("outcome")))[:50]),
                              "reading documented properties ends with %s %s" % (r.get("outcome"), r.get("rt") or r.get("diag")),
                              {"case": cid, "src": core.short(next(c.src for c in cases if c.id == cid), 1500)})
                return True
            return False

        for cid, m in meta.items():
            r = res.get(cid)
            if bad_run(cid, r):
                continue
            obs = canon_dump(r["globals"]["__o"])[1]
            if m[0] == "sweep":
                _, kind, name, exps = m
                if len(obs) != len(exps):
                    chk.inconc("sweep length mismatch")
                    continue
                nbad = 0
                for (fr, start), got in zip(exps, obs):
                    exp = expected_value(kind, fr, start, name)
                    if kind == "tcp" and name == "flags":
                        ok = tcp_flags_ok(exp[1], got)
                    else:
                        ok = matches(exp, got)
                    if not ok:
                        nbad += 1
                        if nbad == 1:
                            chk.violation("field|%s.%s" % (kind, name), "%s.%s reads %s, the header holds %s (header bytes %s)" % (
                                kind, name, show(got), exp[1] if exp[0] in ("i", "bool") else exp[1].hex(), fr[start:start + pkt.MINLEN[kind]].hex()),
                                {"frame_hex": fr.hex(), "layer_start": start})
                chk.observed(("sweep", kind, name), len(exps))
                chk.shapes.add(("sweep", kind, name, "values", len(exps) > 300))
                chk.sample({"field": "%s.%s" % (kind, name), "values_swept": len(exps), "mismatches": nbad}, cap=60)
            else:
                _, batch, plan = m
                if len(obs) != len(plan):
                    chk.inconc("plan length mismatch")
                    continue
                for pl, got in zip(plan, obs):
                    fr = batch[pl[1]]
                    if pl[0] == "packet":
                        k = pl[1]
                        exp = ("a", (("i", k), ("i", k * 3), ("i", k * 3), ("i", len(fr)), ("i", wire_of(k, fr)), ("a", tuple(("b", x) for x in fr))))
                        chk.observed(("packet-props",))
                        if got != exp:
                            chk.violation("field|packet", "packet properties [sec, usec, nsec, caplen, wirelen, payload] read %s" % core.short(show(got), 200),
                                          {"frame_hex": fr.hex()})
                    elif pl[0] == "errlayer":
                        chk.observed(("truncated-layer", pl[2]))
                        if got != ("bool", True):
                            chk.violation("truncated-layer-not-error|" + pl[2], "a %s layer that does not fit in the capture is not an error object" % pl[2],
                                          {"frame_hex": fr.hex(), "layer_start": pl[3]})
                    else:
                        _, k, kind, start, props = pl
                        vals = got[1]
                        for pname, g in zip(props, vals):
                            if pname == "payload":
                                po = start + pkt.header_len(kind, fr, start)
                                want = tuple(("b", x) for x in fr[po:])
                                gotb = g[1] if g[0] == "a" else None
                                cons = pkt.consistent(fr)
                                ok = gotb is not None and (gotb == want if cons else (gotb[:min(len(gotb), len(want))] == want[:min(len(gotb), len(want))]
                                                                                       and (len(gotb) > 0 or len(want) == 0 or not cons)))
                                chk.observed(("payload", kind, cons, pkt.header_len(kind, fr, start)))
                                if not ok:
                                    chk.violation("payload|%s|hdrlen=%d" % (kind, pkt.header_len(kind, fr, start)),
                                                  "%s.payload starts with %s, the bytes after the %d-byte header are %s" % (
                                                      kind, bytes(x[1] for x in (gotb or ())[:8]).hex(), pkt.header_len(kind, fr, start), fr[po:po + 8].hex()),
                                                  {"frame_hex": fr.hex(), "layer_start": start})
                                continue
                            exp = expected_value(kind, fr, start, pname)
                            ok = tcp_flags_ok(exp[1], g) if (kind == "tcp" and pname == "flags") else matches(exp, g)
                            chk.observed(("field", kind, pname))
                            if not ok:
                                chk.violation("field|%s.%s" % (kind, pname), "%s.%s reads %s, the header holds %s" % (
                                    kind, pname, show(g), exp[1] if exp[0] in ("i", "bool") else exp[1].hex()), {"frame_hex": fr.hex(), "layer_start": start})
        r = res.get("hdrs")
        if not bad_run("hdrs", r):
            obs = canon_dump(r["globals"]["__o"])[1]
            for h, got in zip(hdrs, obs):
                exp = ("a", tuple(("i", h[k]) for k in ("magic", "major", "minor", "thiszone", "sigfigs", "snaplen", "linktype")))
                chk.observed(("pcap-header", h["magic"] == pkt.MAGIC_NS, h["thiszone"] < 0))
                if got != exp:
                    chk.violation("field|pcap-header", "pcap header properties read %s, the file holds %s" % (show(got), show(exp)), {"header": h})
        # ---- (4) $n and layer dispatch, end to end in filter mode
        run_dispatch(chk, rng, work, quick)
    finally:
        shutil.rmtree(work, ignore_errors=True)


def run_dispatch(chk, rng, work, quick):
    """$2 after ethernet for every EtherType, $3 after ipv4 / ipv6 for every protocol / next header, $3 after a vlan tag,
    deeper $n = null, truncated layers = error objects, $0/$1"""
    m = pkt.rand_bytes(rng, 12)
    pad = pkt.rand_bytes(rng, 64)
    jobs = []   # (name, frames, script, expected lines)
    ets = list(range(65536)) if not quick else sorted(set(list(range(0, 65536, 257)) + [0x0800, 0x86DD, 0x8100, 0x0806, 0x9100, 0x88A8, 0x07FF, 0x0801, 0x86DC, 0x86DE, 0x8101, 0x80FF]))
    unsupported = [e for e in ets if e not in (pkt.ET_IPV4, pkt.ET_IPV6, pkt.ET_VLAN)]
    jobs.append(("ethertype-unsupported", [pkt.eth(m[:6], m[6:], e, pad) for e in unsupported], "@ true { puts($2 == null, \" \", $3 == null, \" \", ($1).type); }",
                 ["true true %d" % e for e in unsupported]))
    jobs.append(("vlan-ethertype-unsupported", [pkt.eth(m[:6], m[6:], pkt.ET_VLAN, pkt.vlan(1, 0, 5, e, pad)) for e in unsupported[::7]],
                 "@ true { puts($3 == null, \" \", ($2).type, \" \", ($2).id); }", ["true %d 5" % e for e in unsupported[::7]]))
    protos = list(range(256))
    unp = [p for p in protos if p not in (6, 17, 41)]
    ip4 = lambda p, body: pkt.eth(m[:6], m[6:], pkt.ET_IPV4, pkt.ipv4(b"\x0a\x00\x00\x01", b"\x0a\x00\x00\x02", p, body))
    ip6 = lambda p, body: pkt.eth(m[:6], m[6:], pkt.ET_IPV6, pkt.ipv6(b"\x20\x01" + bytes(14), b"\x20\x01" + bytes(13) + b"\x01", p, body))
    jobs.append(("ipv4-proto-unsupported", [ip4(p, pad) for p in unp], "@ true { puts($3 == null, \" \", ($2).proto, \" \", $4 == null); }", ["true %d true" % p for p in unp]))
    unn = [p for p in protos if p not in (6, 17)]
    jobs.append(("ipv6-nextheader-unsupported", [ip6(p, pad) for p in unn], "@ true { puts($3 == null, \" \", ($2).nextheader); }", ["true %d" % p for p in unn]))
    t = pkt.tcp(1234, 80, b"data", seq=77, ack=88)
    u = pkt.udp(53, 5353, b"data")
    six = pkt.ipv6(b"\x20\x01" + bytes(14), b"\xfe\x80" + bytes(14), pkt.P_UDP, u)
    supported = [
        ("eth>ipv4>tcp", ip4(6, t), "($1).type, ($2).ttl, ($3).seq, $4 == null", "2048, 64, 77, true"),
        ("eth>ipv4>udp", ip4(17, u), "($2).proto, ($3).dstport, $4 == null, $10 == null", "17, 5353, true, true"),
        ("eth>ipv4>ipv6>udp", ip4(41, six), "($3).hoplimit, ($4).srcport, $5 == null", "64, 53, true"),
        ("eth>ipv6>tcp", ip6(6, t), "($2).nextheader, ($3).ack, $4 == null", "6, 88, true"),
        ("eth>ipv6>udp", ip6(17, u), "($2).hoplimit, ($3).srcport", "64, 53"),
        ("eth>vlan>ipv4>udp", pkt.eth(m[:6], m[6:], pkt.ET_VLAN, pkt.vlan(3, 1, 100, pkt.ET_IPV4, pkt.ipv4(b"\x01\x02\x03\x04", b"\x05\x06\x07\x08", 17, u))),
         "($2).id, ($2).dei, ($3).ttl, ($4).srcport, $5 == null", "100, true, 64, 53, true"),
        ("eth>vlan>ipv6>tcp", pkt.eth(m[:6], m[6:], pkt.ET_VLAN, pkt.vlan(0, 0, 7, pkt.ET_IPV6, pkt.ipv6(bytes(16), bytes(15) + b"\x01", 6, t))),
         "($2).priority, ($3).nextheader, ($4).seq", "0, 6, 77"),
        ("eth>vlan>vlan>ipv4>tcp", pkt.eth(m[:6], m[6:], pkt.ET_VLAN, pkt.vlan(1, 0, 1, pkt.ET_VLAN, pkt.vlan(2, 0, 2, pkt.ET_IPV4, pkt.ipv4(b"\x01\x02\x03\x04", b"\x05\x06\x07\x08", 6, t)))),
         "($2).id, ($3).id, ($4).proto, ($5).seq, $6 == null", "1, 2, 6, 77, true"),
        ("$0-and-$1", ip4(6, t), "($0).caplen, ($0).wirelen, ($1).type, PL, WL", "%d, %d, 2048, %d, %d" % ((len(ip4(6, t)),) * 4)),
    ]
    for name, fr, exprs, expected in supported:
        jobs.append((name, [fr], "@ true { puts([%s]); }" % exprs, ["[%s]" % expected]))
    # $n below the innermost decoded layer is null also when it is the very first access to the packet (nothing cached
    # yet): one fresh copy of the frame per n
    depth = {"eth>ipv4>tcp": 3, "eth>ipv4>udp": 3, "eth>ipv4>ipv6>udp": 4, "eth>ipv6>tcp": 3, "eth>ipv6>udp": 3, "eth>vlan>ipv4>udp": 4,
             "eth>vlan>ipv6>tcp": 4, "eth>vlan>vlan>ipv4>tcp": 5}
    KFN = "fn k(x) { if x == null { \"N\" } else if is_error(x) { \"E\" } else { \"O\" } }\n"
    for name, fr, _, _ in supported:
        if name not in depth:
            continue
        ns = list(range(1, 11))     # $11 and beyond are a runtime error by design
        rng.shuffle(ns)
        script = KFN + "\n".join("@ NP == %d { puts(%d, k($%d)); }" % (i + 1, n, n) for i, n in enumerate(ns))
        jobs.append(("fresh-" + name, [fr] * len(ns), script, ["%d%s" % (n, "O" if n <= depth[name] else "N") for n in ns]))
        # and in descending order on one packet (deepest first)
        script2 = KFN + "@ true { puts(%s); }" % ", ".join("k($%d)" % n for n in range(10, 0, -1))
        jobs.append(("descending-" + name, [fr], script2, ["".join("O" if n <= depth[name] else "N" for n in range(10, 0, -1))]))
    # array-valued properties are fresh values (changing what was returned does not change the packet or later reads), and
    # reading named layers that contradict the EtherType / protocol (result unspecified, ignored) does not disturb $n
    bigt = pkt.tcp(1234, 80, bytes((i * 11 + 3) & 0xFF for i in range(300)), seq=77, ack=88)
    bigu = pkt.udp(53, 5353, bytes((i * 5 + 1) & 0xFF for i in range(400)))
    for name, fr, lay, plen, first in (("eth>ipv4>tcp-300", ip4(6, bigt), 3, 300, 3), ("eth>ipv4>udp-400", ip4(17, bigu), 3, 400, 1), ("eth>ipv4>tcp-4", ip4(6, t), 3, 4, 100),
                                      ("eth>ipv6>udp-400", ip6(17, bigu), 3, 400, 1)):
        script = ("@ true { let a = ($%d).payload; let n0 = len(a); let f0 = a[0]; let l0 = a[n0 - 1]; a[0] = 999; push(a, 5); a[n0 - 1] = 998; let b = ($%d).payload; "
                  "puts(n0, \" \", len(b), \" \", b[0] == f0, \" \", b[len(b) - 1] == l0, \" \", f0 == byte(%d), \" \", len(($0).payload) == PL); "
                  "let w = ($0).payload; w[0] = 1000; puts(($0).payload[0] != 1000, \" \", len(($%d).payload)); }" % (lay, lay, first, lay))
        jobs.append(("fresh-payload-" + name, [fr], script, ["%d %d true true true true" % (plen, plen), "true %d" % plen]))
    # (frames whose first bytes behind the Ethernet header would also pass for an IPv4 header: VLAN ids from 1280, IPv6 traffic
    # classes from 0x50, in every combination of low nibble 5..15)
    extra = []
    for nib in range(5, 16):
        extra.append(("eth>vlan(id %d)>ipv4>udp" % (nib * 256 + 7), pkt.eth(m[:6], m[6:], pkt.ET_VLAN, pkt.vlan(3, 1, nib * 256 + 7, pkt.ET_IPV4, pkt.ipv4(b"\x01\x02\x03\x04", b"\x05\x06\x07\x08", 17, bigu))), 4))
        extra.append(("eth>ipv6(tc %#x)>udp" % (nib * 16 + 8), pkt.eth(m[:6], m[6:], pkt.ET_IPV6, pkt.ipv6(b"\x20\x01" + bytes(14), b"\xfe\x80" + bytes(14), 17, bigu, nib * 16 + 8)), 3))
        extra.append(("eth>ipv4(tos)>tcp", pkt.eth(m[:6], m[6:], pkt.ET_IPV4, pkt.ipv4(b"\x0a\x00\x00\x01", b"\x0a\x00\x00\x02", 6, bigt, 5, nib * 4, 1)), 3))
    for name, fr, dp in [(n_, f_, depth[n_]) for n_, f_, _, _ in supported if n_ in depth] + extra:
        depth[name] = dp
        script = KFN + ("@ true { puts(%s); ($1).ipv4; ($1).ipv6; ($1).vlan; ($1).ipv6; ($1).ipv4; puts(%s); }" % (
            ", ".join("k($%d)" % n for n in range(1, 7)), ", ".join("k($%d)" % n for n in range(1, 7))))
        line = "".join("O" if n <= depth[name] else "N" for n in range(1, 7))
        jobs.append(("contradicting-names-" + name, [fr], script, [line, line]))
    # truncated layers are error objects, deeper $n stay error/null but never raise
    full = ip4(6, t)
    cuts = [(c, full[:c]) for c in range(0, len(full))]
    exp_lines = []
    for c, fr in cuts:
        layers = pkt.decode(fr)
        exp = []
        for n in (1, 2, 3):
            if n - 1 < len(layers):
                l = layers[n - 1]
                exp.append("E" if l[0] in ("error", "malformed") else "O")
            else:
                exp.append("E" if layers and layers[-1][0] in ("error", "malformed") else "N")
        exp_lines.append("".join(exp))
    jobs.append(("truncation-ladder", [fr for _, fr in cuts],
                 "fn k(x) { if x == null { \"N\" } else if is_error(x) { \"E\" } else { \"O\" } }\n@ true { puts(k($1), k($2), k($3)); }", exp_lines))
    path = os.path.join(work, "d.p2")
    inp = os.path.join(work, "d.pcap")
    for ji, (name, frames, script, expected) in enumerate(jobs):
        with open(path, "w") as f:
            f.write(script + "\n")
        with open(inp, "wb") as f:
            f.write(pkt.pcap_file([(k, 0, fr) for k, fr in enumerate(frames)]))
        with open(inp, "rb") as fi:
            rr = core.run_binary(["-s", path], stdin_file=fi, release=(ji % 2 == 0), timeout=300)
        if rr["timeout"]:
            chk.inconc("dispatch run timed out")
            continue
        out = rr["out"].decode("utf-8", "replace").splitlines()
        err = rr["err"].decode("utf-8", "replace")
        chk.observed(("dispatch", name), len(frames))
        chk.shapes.add(("dispatch", name))
        chk.sample({"dispatch": name, "frames": len(frames), "script": script, "first_output": out[:2]}, cap=80)
        if core.crashed(rr):
            chk.violation("dispatch-crash|" + name, "filter-mode dispatch crashes: %s" % err[-200:], {"script": script})
            continue
        if out != expected:
            k = next((i for i in range(min(len(out), len(expected))) if out[i] != expected[i]), min(len(out), len(expected)))
            chk.violation("dispatch|" + name, "%s: packet %d prints %r, expected %r (%s)" % (
                name, k, out[k] if k < len(out) else "<nothing>", expected[k] if k < len(expected) else "<nothing>", err.strip().split("\n")[-1][:120]),
                {"script": script, "frame_hex": frames[k].hex() if k < len(frames) else None, "stderr": err[-300:]})
