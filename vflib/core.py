"""Shared plumbing: building the vehicles, running probe shards, running the real
binary, verdict bookkeeping, evidence, replay files, known findings."""
import base64
import hashlib
import json
import os
import random
import shutil
import signal
import subprocess
import sys
import tempfile
import time
from concurrent.futures import ThreadPoolExecutor

VERIF = os.path.dirname(os.path.dirname(os.path.abspath(__file__)))
REPO = os.environ.get("P2SH_SRC", "/repo")
BUILD = os.environ.get("VF_BUILD") or os.path.join(VERIF, ".build")
PROBE_DIR = os.path.join(VERIF, "probe")
PROBE_BIN = os.path.join(BUILD, "probe", "debug", "p2sh-probe")
P2SH_DEV = os.path.join(BUILD, "p2sh", "debug", "p2sh")
P2SH_REL = os.path.join(BUILD, "p2sh", "release", "p2sh")
_OUT = os.environ.get("VF_OUT") or VERIF      # seeded-change runs write their evidence/replays elsewhere
EVIDENCE = os.path.join(_OUT, "evidence")
REPLAYS = os.path.join(_OUT, "replays")
KNOWN = os.path.join(VERIF, "known_findings.json")
NCPU = min(16, os.cpu_count() or 4)

CARGO_ENV = dict(os.environ, CARGO_NET_OFFLINE="true", RUSTFLAGS="--cfg p2sh_verif")


class BuildError(Exception):
    pass


def _cargo(args, cwd, target_dir, env=None):
    e = dict(env or CARGO_ENV)
    e["CARGO_TARGET_DIR"] = target_dir
    e["P2SH_SRC"] = REPO
    r = subprocess.run(["cargo"] + args + ["--offline"], cwd=cwd, env=e,
                       stdout=subprocess.PIPE, stderr=subprocess.STDOUT, text=True)
    if r.returncode != 0:
        raise BuildError("cargo %s failed in %s:\n%s" % (" ".join(args), cwd, r.stdout[-4000:]))
    return r.stdout


def build_probe():
    """(Re)build the in-process probe from /repo's current working tree."""
    lock_src = os.path.join(REPO, "Cargo.lock")
    if os.path.exists(lock_src):
        shutil.copyfile(lock_src, os.path.join(PROBE_DIR, "Cargo.lock"))
    _cargo(["build"], PROBE_DIR, os.path.join(BUILD, "probe"))
    return PROBE_BIN


PROBE_ASAN = os.path.join(BUILD, "probe-asan", "x86_64-unknown-linux-gnu", "debug", "p2sh-probe")


def build_probe_asan():
    """The probe under AddressSanitizer (nightly, no build-std needed for ASan on this image)."""
    lock_src = os.path.join(REPO, "Cargo.lock")
    if os.path.exists(lock_src):
        shutil.copyfile(lock_src, os.path.join(PROBE_DIR, "Cargo.lock"))
    e = dict(CARGO_ENV, RUSTFLAGS="--cfg p2sh_verif -Zsanitizer=address -Cforce-frame-pointers=yes")
    _cargo(["+nightly", "build", "--target", "x86_64-unknown-linux-gnu"], PROBE_DIR, os.path.join(BUILD, "probe-asan"), env=e)
    return PROBE_ASAN


def repo_has_unsafe():
    """Does the tree under test contain an `unsafe` block / fn / impl outside comments? (adaptive trigger, DESIGN section 8)"""
    import re
    hits = []
    for root, _, files in os.walk(os.path.join(REPO, "src")):
        for fn in files:
            if fn.endswith(".rs"):
                p = os.path.join(root, fn)
                with open(p, "r", errors="replace") as f:
                    for n, line in enumerate(f, 1):
                        code = line.split("//")[0]
                        if re.search(r"\bunsafe\b", code):
                            hits.append("%s:%d" % (os.path.relpath(p, REPO), n))
    return hits


def build_p2sh(release=False):
    """(Re)build the real binary, hooks on, from /repo's current working tree."""
    args = ["build"] + (["--release"] if release else [])
    _cargo(args, REPO, os.path.join(BUILD, "p2sh"))
    return P2SH_REL if release else P2SH_DEV


def scratch_dir():
    base = "/dev/shm" if os.path.isdir("/dev/shm") and os.access("/dev/shm", os.W_OK) else tempfile.gettempdir()
    d = tempfile.mkdtemp(prefix="vf-%d-" % os.getpid(), dir=base)
    return d


_RUN_CWD = None


def run_cwd():
    """Working directory for the programs under test: generated programs open files
    by relative name, which must never land in /verif or /repo."""
    global _RUN_CWD
    if _RUN_CWD is None or not os.path.isdir(_RUN_CWD):
        import atexit
        _RUN_CWD = scratch_dir()
        os.chmod(_RUN_CWD, 0o755)
        atexit.register(shutil.rmtree, _RUN_CWD, True)
    return _RUN_CWD


# ---------------------------------------------------------------------------
# probe cases

def _esc_flag(v):
    out = []
    for ch in str(v).encode("utf-8"):
        c = chr(ch)
        if c.isalnum() or c in "._-/,:+=@\x1f":
            out.append(c if ch < 128 else "%%%02x" % ch)
        else:
            out.append("%%%02x" % ch)
    return "".join(out)


class Case:
    __slots__ = ("id", "src", "flags", "cmd", "meta")

    def __init__(self, cid, src, flags=None, cmd="CASE", meta=None):
        self.id = str(cid)
        self.src = src
        self.flags = flags or {}
        self.cmd = cmd
        self.meta = meta

    def encode(self):
        body = self.src.encode("utf-8")
        fl = " ".join("%s=%s" % (k, _esc_flag(v)) for k, v in self.flags.items())
        return ("%s %s %d %s\n" % (self.cmd, self.id, len(body), fl)).encode("utf-8") + body + b"\n"


PROBE_AS_CAP = int(float(os.environ.get("VF_PROBE_AS_GB", "8")) * (1 << 30))


def _cap_address_space():
    import resource
    try:
        resource.setrlimit(resource.RLIMIT_AS, (PROBE_AS_CAP, PROBE_AS_CAP))
    except (ValueError, OSError):
        pass


def _run_shard(cases, workdir, shard_no, timeout_per_shard, env=None, max_hangs=None, probe_cmd=None, san_log=None):
    """Feed `cases` to one probe process (restarting after a death or a hang).
    Returns {id: result-dict}. After `max_hangs` hangs the remaining cases are skipped."""
    results = {}
    pos = 0
    attempt = 0
    hangs = 0
    kills = {}
    while pos < len(cases):
        if max_hangs is not None and hangs >= max_hangs:
            for c in cases[pos:]:
                results[c.id] = {"id": c.id, "outcome": "skipped"}
            break
        attempt += 1
        chunk = cases[pos:]
        inp = os.path.join(workdir, "in-%d-%d" % (shard_no, attempt))
        outp = os.path.join(workdir, "out-%d-%d" % (shard_no, attempt))
        with open(inp, "wb") as f:
            for c in chunk:
                f.write(c.encode())
        timed_out = False
        with open(inp, "rb") as fi, open(outp, "wb") as fo:
            # the ordinary probe gets a cap on its address space: a generated program that doubles a string in a loop
            # asks for tens of gigabytes within its step budget, and 16 such workers would bring the kernel's
            # out-of-memory killer down on the machine. Past the cap the allocation fails and the worker aborts
            # ("died", which every caller already handles). Sanitizer builds reserve terabytes of shadow memory: no cap.
            p = subprocess.Popen(probe_cmd or [PROBE_BIN], stdin=fi, stdout=fo, stderr=subprocess.DEVNULL,
                                 env=env or os.environ, cwd=run_cwd(), preexec_fn=(None if probe_cmd else _cap_address_space))
            try:
                rc = p.wait(timeout=timeout_per_shard)
            except subprocess.TimeoutExpired:
                timed_out = True
                p.kill()
                rc = p.wait()
        begun = None
        done = set()
        with open(outp, "rb") as f:
            for raw in f:
                line = raw.decode("utf-8", "replace").rstrip("\n")
                if line.startswith("BEGIN "):
                    begun = line[6:]
                elif line.startswith("END "):
                    done.add(line[4:])
                    begun = None
                elif line.startswith("{"):
                    try:
                        obj = json.loads(line)
                        results[obj["id"]] = obj
                    except Exception:
                        pass
        os.unlink(inp)
        os.unlink(outp)
        san_report = None
        if san_log:
            lp = "%s.%d" % (san_log, p.pid)
            if os.path.exists(lp):
                with open(lp, "r", errors="replace") as f:
                    san_report = f.read()
                os.unlink(lp)
        # where did we stop?
        ids = [c.id for c in chunk]
        if begun is not None and begun in ids:
            k = ids.index(begun)
            if rc == -9 and not timed_out:
                # SIGKILL from outside (the kernel's out-of-memory killer): not something the interpreter did. Try the case
                # again twice, then leave it without a result (callers count a missing result as inconclusive).
                kills[begun] = kills.get(begun, 0) + 1
                if kills[begun] <= 2:
                    pos += k
                else:
                    pos += k + 1
                continue
            if timed_out:
                hangs += 1
                results[begun] = {"id": begun, "outcome": "hang", "stage": "?"}
            else:
                results[begun] = {"id": begun, "outcome": "died", "stage": "?", "rc": rc}
            if san_report:
                results[begun]["san"] = san_report
            pos += k + 1
        else:
            ndone = 0
            for i in ids:
                if i in done:
                    ndone += 1
                else:
                    break
            if ndone == len(ids):
                pos = len(cases)
            else:
                # process ended between cases (e.g. exit builtin after END?) or was killed
                if ndone == 0 and attempt > 3:
                    results[ids[0]] = {"id": ids[0], "outcome": "died", "stage": "?", "rc": rc}
                    pos += 1
                else:
                    pos += ndone
        if attempt > len(cases) + 5:
            break
    return results


def run_cases(cases, shards=None, timeout=None, env=None, max_hangs=None, probe_cmd=None, san_log=None):
    """Run probe cases on up to `shards` worker processes. Returns {id: result}."""
    if not cases:
        return {}
    shards = shards or NCPU
    shards = max(1, min(shards, len(cases)))
    buckets = [[] for _ in range(shards)]
    for i, c in enumerate(cases):
        buckets[i % shards].append(c)
    work = scratch_dir()
    try:
        def one(i):
            t = timeout or (60 + 0.02 * len(buckets[i]))
            return _run_shard(buckets[i], work, i, t, env, max_hangs, probe_cmd, san_log)
        out = {}
        with ThreadPoolExecutor(max_workers=shards) as ex:
            for r in ex.map(one, range(shards)):
                out.update(r)
        return out
    finally:
        shutil.rmtree(work, ignore_errors=True)


def run_one(src, flags=None, timeout=60, cmd="CASE"):
    r = run_cases([Case("solo", src, flags, cmd)], shards=1, timeout=timeout)
    return r.get("solo", {"outcome": "missing"})


# ---------------------------------------------------------------------------
# the real binary

def run_binary(args, stdin_data=b"", release=False, timeout=30, env=None, cwd=None, step_budget=None,
               preexec_fn=None, stdin_file=None, stdout_file=None, stderr_file=None):
    """Run the real p2sh binary. Returns dict(rc, out, err, timeout)."""
    exe = P2SH_REL if release else P2SH_DEV
    e = dict(env or os.environ)
    e.pop("P2SH_VERIF_REPL_STDIN", None) if env is None else None
    if step_budget is not None:
        e["P2SH_VERIF_STEP_BUDGET"] = str(step_budget)
    e["RUST_BACKTRACE"] = "0"
    try:
        p = subprocess.Popen([exe] + list(args),
                             stdin=(stdin_file if stdin_file is not None else subprocess.PIPE),
                             stdout=(stdout_file if stdout_file is not None else subprocess.PIPE),
                             stderr=(stderr_file if stderr_file is not None else subprocess.PIPE), env=e, cwd=(cwd or run_cwd()), preexec_fn=preexec_fn)
    except OSError as ex:
        return {"rc": None, "out": b"", "err": str(ex).encode(), "timeout": False, "spawn_error": True}
    try:
        out, err = p.communicate(None if stdin_file is not None else stdin_data, timeout=timeout)
        if p.returncode == -9:
            # SIGKILL never comes from the interpreter itself (panic = 101, abort = -6, fault = -11): the kernel's
            # out-of-memory killer or an operator took the process away. Inconclusive, like a timeout.
            return {"rc": None, "out": out or b"", "err": err or b"", "timeout": True, "killed": True}
        return {"rc": p.returncode, "out": out or b"", "err": err or b"", "timeout": False}
    except subprocess.TimeoutExpired:
        p.kill()
        out, err = p.communicate()
        return {"rc": None, "out": out or b"", "err": err or b"", "timeout": True}


REPL_MARK = "\x1e"


def repl_session(lines, release=False, timeout=60, stderr_path=None):
    """Feed `lines` to the real REPL loop through the guarded scripted line source.
    -> (list of stdout text per line, list of stderr text per line, raw result) ; None lists when the run failed"""
    env = dict(os.environ, P2SH_VERIF_REPL_STDIN="1")
    if stderr_path:
        exe = P2SH_REL if release else P2SH_DEV
        env["RUST_BACKTRACE"] = "0"
        try:
            with open(stderr_path, "wb") as ef:
                p = subprocess.run([exe], input=("\n".join(lines) + "\n").encode("utf-8"), stdout=subprocess.PIPE, stderr=ef, env=env, cwd=run_cwd(), timeout=timeout)
            rr = {"rc": p.returncode, "out": p.stdout or b"", "err": b"", "timeout": False}
        except subprocess.TimeoutExpired:
            rr = {"rc": None, "out": b"", "err": b"", "timeout": True}
    else:
        rr = run_binary([], stdin_data=("\n".join(lines) + "\n").encode("utf-8"), release=release, timeout=timeout, env=env)
    if rr["timeout"] or crashed(rr):
        return None, None, rr

    def split(text):
        segs = {}
        for part in text.split(REPL_MARK)[1:]:
            nl = part.find("\n")
            try:
                segs[int(part[:nl])] = part[nl + 1:]
            except ValueError:
                pass
        return segs
    o = split(rr["out"].decode("utf-8", "replace"))
    e = split(rr["err"].decode("utf-8", "replace"))
    outs = [o.get(i, "") for i in range(len(lines))]
    if outs and outs[-1].endswith("\nExiting...\n"):
        outs[-1] = outs[-1][:-len("\nExiting...\n")]
    return outs, [e.get(i, "") for i in range(len(lines))], rr


def isolation_after_errors(chk, label, cases, stderr_path=None):
    """A statement that fails (runtime error or error object) must leave no trace in what later, unrelated statements do.
    cases: (tag, setup lines, failing line(s), probe lines, files to compare after the session, factory of fresh paths or None).
    Two REPL sessions are run, without and with the failing lines; the probe lines must print the same and the files must
    hold the same bytes. Vehicle: the real REPL loop (the one place where a program goes on after a runtime error)."""
    for k, (tag, setup, failing, probes, files) in enumerate(cases):
        rel = (k % 2 == 1)
        results = []
        for with_error in (False, True):
            for f in files:
                try:
                    os.unlink(f)
                except OSError:
                    pass
            lines = list(setup) + (list(failing) if with_error else []) + list(probes)
            outs, errs, rr = repl_session(lines, release=rel, stderr_path=stderr_path)
            if outs is None:
                results.append(("crash" if crashed(rr) else "timeout", rr))
                continue
            content = []
            for f in files:
                try:
                    with open(f, "rb") as fh:
                        content.append(fh.read())
                except OSError:
                    content.append(None)
            results.append((outs[len(lines) - len(probes):], content))
        chk.observed((label, "after-error", tag))
        base, witherr = results
        if base[0] in ("crash", "timeout") or witherr[0] in ("crash", "timeout"):
            if witherr[0] == "crash" and base[0] not in ("crash", "timeout"):
                chk.violation("%s|after-error|crash|%s" % (label, tag), "the session crashes after the failing statement %r: %s" % (
                    failing, witherr[1]["err"][-200:]), {"setup": setup, "failing": failing, "probes": probes})
            else:
                chk.inconc("after-error session did not complete")
            continue
        if base != witherr:
            what = "print %r instead of %r" % (witherr[0], base[0]) if base[0] != witherr[0] else "leave different bytes in the files they write"
            chk.violation("%s|after-error|%s" % (label, tag), "after the failing statement(s) %r the later statements %r %s" % (failing, probes, what),
                          {"setup": setup, "failing": failing, "probes": probes})


def crashed(res):
    """Did a real-binary run end in a panic / abort / signal?"""
    if res.get("timeout"):
        return False
    rc = res.get("rc")
    if rc is None:
        return False
    if rc < 0:
        return True
    if rc == 101 or b"panicked at" in res.get("err", b""):
        return True
    if rc in (134, 139):
        return True
    return False


# ---------------------------------------------------------------------------
# panic signatures that survive line shifts

_src_cache = {}


def panic_site_sig(loc, msg):
    """loc = '/repo/src/x.rs:LINE:COL' -> 'src/x.rs|<trimmed source line>|<message class>'"""
    try:
        path, line, _col = loc.rsplit(":", 2)
        line = int(line)
        if not path.startswith(REPO + "/"):
            return "outside-repo:%s||%s" % (os.path.basename(path), msg_class(msg))
        if path not in _src_cache:
            with open(path, encoding="utf-8", errors="replace") as f:
                _src_cache[path] = f.read().split("\n")
        text = _src_cache[path][line - 1].strip()
        rel = path[len(REPO) + 1:] if path.startswith(REPO + "/") else path
        if "/rustc/" in path or "/rustlib/" in path or "/.cargo/" in path:
            rel = "std-or-dependency:" + os.path.basename(path)
    except Exception:
        rel, text = loc, ""
    return "%s|%s|%s" % (rel, text, msg_class(msg))


def msg_class(msg):
    import re
    m = re.sub(r"\d+", "N", msg)
    return m[:80]


# ---------------------------------------------------------------------------
# verdict bookkeeping

class Check:
    """Collects what one run of one check observed and turns it into the exit
    status, the VIOLATION / KNOWN-FINDING lines, replay files and the evidence file."""

    def __init__(self, pid, tier, seed, level="exploration"):
        self.pid = pid
        self.tier = tier
        self.seed = seed
        self.level = level
        self.t0 = time.time()
        self.rng = random.Random("%s/%s" % (seed, pid))
        self.evaluations = 0
        self.shapes = set()
        self.samples = []
        self.violations = []   # dict(sig, what, case)
        self.inconclusive = {}  # reason -> count
        self.counters = {}
        self.rule = ""
        self.assumptions = []
        self.exhaustive = None
        self.floor = 1
        self.extra = {}
        self.budget_s = None
        self.budget_exhausted = False

    # -- observation
    def count(self, key, n=1):
        self.counters[key] = self.counters.get(key, 0) + n

    def observed(self, shape=None, n=1):
        self.evaluations += n
        if shape is not None:
            self.shapes.add(shape)

    def sample(self, s, cap=12):
        if len(self.samples) < cap:
            self.samples.append(s)

    def inconc(self, reason, n=1):
        self.inconclusive[reason] = self.inconclusive.get(reason, 0) + n

    def violation(self, sig, what, case):
        for v in self.violations:
            if v["sig"] == sig:
                v["count"] += 1
                return
        self.violations.append({"sig": sig, "what": what, "case": case, "count": 1})

    def out_of_time(self):
        if self.budget_s is not None and time.time() - self.t0 > self.budget_s:
            self.budget_exhausted = True
            return True
        return False

    # -- verdict
    def finish(self):
        known = load_known()
        mine = [k for k in known if k.get("property") == self.pid and k.get("status", "open") == "open"]
        new = []
        hit = {}
        for v in self.violations:
            matched = None
            for k in mine:
                sigs = k.get("sigs") or ([k["sig"]] if "sig" in k else [])
                if v["sig"] in sigs:
                    matched = k
                    break
            if matched is not None:
                hit.setdefault(matched["id"], (matched, []))[1].append(v)
            else:
                new.append(v)
        for kid, (k, vs) in sorted(hit.items()):
            print("KNOWN-FINDING: property=%s %s [%s; observed %d time(s) in this run]" % (
                self.pid, k.get("what_fails", ""), kid, sum(v["count"] for v in vs)))
        for v in new[:20]:
            path = write_replay(self.pid, v, self.tier, self.seed)
            print("VIOLATION property=%s replay=%s" % (self.pid, path))
            print("  what: %s" % v["what"])
            print("  sig:  %s" % v["sig"])
        if len(new) > 20:
            print("  ... and %d more distinct violation signatures (listed in the evidence file)" % (len(new) - 20))
        wall = time.time() - self.t0
        cov = {
            "evaluations": int(self.evaluations),
            "distinct_nontrivial": int(len(self.shapes)),
            "rule": self.rule,
            "samples": self.samples if self.samples else ["<no sample recorded>"],
            "counters": self.counters,
            "inconclusive": self.inconclusive,
            "known_findings_observed": sorted(hit.keys()),
            "new_violation_signatures": [v["sig"] for v in new],
            "budget_exhausted": self.budget_exhausted,
        }
        if self.exhaustive is not None:
            cov["exhaustive"] = bool(self.exhaustive)
        cov.update(self.extra)
        ev = {
            "property_id": self.pid,
            "tier": self.tier,
            "seed": int(self.seed),
            "level": self.level,
            "coverage": cov,
            "assumptions": self.assumptions,
            "wall_s": round(wall, 2),
            "violations": len(new),
        }
        os.makedirs(EVIDENCE, exist_ok=True)
        tmp = os.path.join(EVIDENCE, ".%s.json.tmp" % self.pid)
        with open(tmp, "w") as f:
            json.dump(ev, f, indent=1, ensure_ascii=False, default=str)
        os.replace(tmp, os.path.join(EVIDENCE, "%s.json" % self.pid))
        print("%s %s seed=%s: %d evaluations, %d distinct shapes, %d new violation(s), %d known finding(s), inconclusive=%s, %.1fs" % (
            self.pid, self.tier, self.seed, self.evaluations, len(self.shapes), len(new), len(hit),
            json.dumps(self.inconclusive), wall))
        for k, v in sorted(self.counters.items()):
            print("  %s = %s" % (k, v))
        if new:
            return 1
        if self.evaluations < self.floor or len(self.shapes) < 2:
            print("INCONCLUSIVE property=%s only %d conclusive evaluations (floor %d)" % (
                self.pid, self.evaluations, self.floor))
            return 2
        return 0


def load_known():
    try:
        with open(KNOWN) as f:
            return json.load(f).get("findings", [])
    except FileNotFoundError:
        return []


def write_replay(pid, v, tier, seed):
    d = os.path.join(REPLAYS, pid)
    os.makedirs(d, exist_ok=True)
    h = hashlib.sha1(v["sig"].encode("utf-8", "replace")).hexdigest()[:16]
    path = os.path.join(d, "%s.json" % h)
    with open(path, "w") as f:
        json.dump({"property": pid, "sig": v["sig"], "what": v["what"], "case": v["case"],
                   "tier": tier, "seed": seed}, f, indent=1, ensure_ascii=False, default=str)
    return path


def b64(b):
    return base64.b64encode(b).decode("ascii")


def short(s, n=200):
    s = s if isinstance(s, str) else repr(s)
    return s if len(s) <= n else s[:n] + "…(%d chars)" % len(s)
