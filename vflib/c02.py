"""C02 - compiled programs behave as the language's reference semantics prescribe.

Random programs (generator in gen.py) are compiled and run by the real
compiler+VM (probe); the sequence of observed values, the final value and
the error status are compared with the definitional evaluator. Ill-formed
variants must be rejected by the compiler, well-formed ones must compile."""
from . import core, gen
from .core import Case
from .val import canon_dump, show


def node_kinds(p, acc=None):
    acc = acc if acc is not None else set()
    if isinstance(p, (list, tuple)):
        if p and isinstance(p[0], str) and p[0] in ("lit", "var", "bin", "un", "arr", "map", "index", "assign", "call", "fn", "if",
                                                      "match", "let", "expr", "block", "fnstmt", "return", "while", "loop",
                                                      "break", "continue"):
            if p[0] in ("bin", "un"):
                acc.add(p[0] + p[1])
            elif p[0] != "lit" and p[0] != "var":
                acc.add(p[0])
            if p[0] == "lit":
                return acc
        for x in p:
            node_kinds(x, acc)
    return acc


def inject_fault(rng, program):
    """-> (program', fault name) : one compile-time fault"""
    k = rng.randrange(6)
    prog = list(program)
    pos = rng.randint(0, len(prog))
    if k == 0:
        prog.insert(pos, ("expr", ("bin", "+", ("lit", 1), ("var", "undefined_zz"))))
        return prog, "undefined-name"
    if k == 1:
        prog.insert(pos, ("break", None))
        return prog, "break-outside-loop"
    if k == 2:
        prog.insert(pos, ("continue", None))
        return prog, "continue-outside-loop"
    if k == 3:
        prog.insert(pos, ("return", ("lit", 1)))
        return prog, "return-outside-function"
    if k == 4:
        prog.insert(pos, ("loop", "Lx", [("break", "Lnone")]))
        return prog, "unknown-label"
    prog.insert(pos, ("fnstmt", "fz", [], [("expr", ("if", ("lit", True), [("break", None)], None))]))
    return prog, "break-in-function-outside-loop"


def disagrees(prog):
    """solo re-run used for confirmation and shrinking"""
    if not gen.well_formed(prog):
        return False
    ev = gen.evaluate(prog)
    if ev["status"] not in ("ok", "error") or ev.get("tags"):
        return False
    text, _ = gen.render(prog)
    r = core.run_one(gen.PRELUDE + text, {"globals": "__o", "final": 1, "steps": 400000})
    oc = r.get("outcome")
    if oc in ("parse_errors", "compile_error"):
        return True
    if oc not in ("ok", "rt_error"):
        return False
    if (ev["status"] == "ok") != (oc == "ok"):
        return True
    return canon_dump(r["globals"]["__o"])[1] != tuple(ev["obs"])


def shrunk(prog):
    try:
        small = gen.shrink(prog, disagrees, budget=120)
        return gen.PRELUDE + gen.render(small)[0]
    except Exception:
        return None


def compare(chk, prog, text, r, ev, tagset, sigprefix="sem"):
    """judge one run against the evaluator's verdict; returns True when compared"""
    oc = r.get("outcome")
    if oc == "panic":
        return False   # crash freedom is C08's property
    if oc in ("parse_errors", "compile_error"):
        sig = "%s|rejected|%s" % (sigprefix, core.msg_class((r.get("diag") or ["?"])[0])[:50])
        new = all(v["sig"] != sig for v in chk.violations)
        chk.violation(sig, "well-formed program rejected: %s" % r.get("diag"),
                      {"src": text, "result": r, "shrunk": shrunk(prog) if new and len(chk.violations) < 8 else None})
        return True
    if oc == "budget":
        chk.inconc("step budget")
        return False
    got_obs = canon_dump(r["globals"].get("__o"))[1]
    exp_obs = tuple(ev["obs"])
    bad = None
    if ev["status"] == "ok":
        if oc != "ok":
            bad = "expected normal completion, got runtime error '%s' (line %s)" % (r["rt"]["msg"], r["rt"]["line"])
        elif got_obs != exp_obs:
            bad = "observed values differ"
        elif prog and prog[-1][0] == "expr" and "final" in r and canon_dump(r["final"]) != ev["final"]:
            bad = "final value %s, expected %s" % (show(canon_dump(r["final"])), show(ev["final"]))
    else:
        if oc != "rt_error":
            bad = "expected a runtime error, program completed"
        elif got_obs != exp_obs:
            bad = "observed values before the runtime error differ"
    if bad:
        k = next((i for i in range(min(len(got_obs), len(exp_obs))) if got_obs[i] != exp_obs[i]), min(len(got_obs), len(exp_obs)))
        sig = "%s|%s|%s" % (sigprefix, bad.split(",")[0].split("'")[0][:40], "+".join(sorted(tagset))[:80])
        new = all(v["sig"] != sig for v in chk.violations)
        chk.violation(sig,
                      "%s; first difference at observation #%d: got %s expected %s" % (
                          bad, k, show(got_obs[k]) if k < len(got_obs) else "<end>", show(exp_obs[k]) if k < len(exp_obs) else "<end>"),
                      {"src": text, "expected_status": ev["status"], "expected_obs": [show(x) for x in exp_obs],
                       "observed_obs": [show(x) for x in got_obs], "outcome": oc, "rt": r.get("rt"),
                       "final": r.get("final"), "shrunk": shrunk(prog) if new and len(chk.violations) < 8 else None})
    return True


# hand-written programs with the values the reference semantics prescribe (closures, recursion through
# helpers, higher-order functions, aliasing, nested indexing) - shapes the random generator reaches rarely
SCENARIOS = [
    ("fn f(n) { let g = fn() { f(n - 1) }; if n <= 0 { 0 } else { g() + 1 } } push(__o, f(3));", ["3"]),
    ("fn sum(n, acc) { let step = fn(k) { sum(k, acc + n) }; if n == 0 { acc } else { step(n - 1) } } push(__o, sum(4, 0));", ["10"]),
    ("fn f(n) { fn h(k) { if k == 0 { 0 } else { f(k - 1) + 1 } } if n == 0 { 100 } else { h(n) } } push(__o, f(2));", ["102"]),
    ("let fact = fn(n) { if n < 2 { 1 } else { n * fact(n - 1) } }; push(__o, fact(10));", ["3628800"]),
    ("fn apply(f, x) { f(x) } fn twice(f) { fn(x) { f(f(x)) } } push(__o, apply(twice(fn(x) { x * 3 }), 2));", ["18"]),
    ("fn compose(f, g) { fn(x) { g(f(x)) } } let inc = fn(x) { x + 1 }; let dbl = fn(x) { x * 2 }; push(__o, compose(inc, dbl)(5)); push(__o, compose(dbl, inc)(5));", ["12", "11"]),
    ("fn counter() { let c = 0; [fn() { c = c + 1; c }, fn() { c }] } let p = counter(); push(__o, p[0]()); push(__o, p[0]()); push(__o, p[1]());", ["1", "2", "0"]),
    ("let a = [1, 2, 3]; let b = a; b[0] = 9; push(a, 4); push(__o, a); push(__o, len(b));", ["[9, 2, 3, 4]", "4"]),
    ("let m = map {\"k\": [1, 2]}; let v = m[\"k\"]; v[1] = 7; push(__o, m[\"k\"][1]); m[\"z\"] = m[\"k\"]; push(__o, len(m));", ["7", "2"]),
    ("fn f(a, b, c, d, e) { [e, d, c, b, a] } push(__o, f(1, 2, 3, 4, 5));", ["[5, 4, 3, 2, 1]"]),
    ("fn f(a) { let x = a * 2; let y = x + 1; fn(b) { let z = b + y; fn(c) { a + x + y + z + b + c } } } push(__o, f(1)(10)(100));", ["129"]),
    ("let r = []; fn walk(n) { if n > 0 { push(r, n); walk(n - 1); push(r, 0 - n); } } walk(3); push(__o, r);", ["[3, 2, 1, -1, -2, -3]"]),
    ("fn even(n, odd) { if n == 0 { true } else { odd(n - 1, even) } } fn odd(n, even) { if n == 0 { false } else { even(n - 1, odd) } } push(__o, even(10, odd)); push(__o, even(7, odd));", ["true", "false"]),
    ("let fs = [fn(x) { x + 1 }, fn(x) { x * x }, len]; push(__o, fs[0](4)); push(__o, fs[1](4)); push(__o, fs[2](\"abc\"));", ["5", "16", "3"]),
    ("fn f(n) { if n == 0 { return 0; } let r = f(n - 1); return r + n; } push(__o, f(20));", ["210"]),
    ("fn f() { let a = 1; let b = 2; let c = 3; let g = fn() { let d = 4; let h = fn() { a + b + c + d }; h() }; g() } push(__o, f());", ["10"]),
    ("fn mk(i) { fn() { i } } let fs = [mk(0), mk(1), mk(2)]; push(__o, fs[2]() * 10 + fs[0]()); ", ["20"]),
    ("let x = 1; fn f() { x = x + 1; x } push(__o, [f(), x, f(), x]);", ["[2, 2, 3, 3]"]),
    ("fn f(a, b) { a - b } let i = 0; fn n() { i = i + 1; i } push(__o, f(n(), n()));", ["-1"]),
    ("let i = 0; fn n() { i = i + 1; i } push(__o, n() < n()); push(__o, n() <= n()); push(__o, n() > n());", ["false", "false", "false"]),
    ("let a = [0, 0]; let i = 0; fn n() { i = i + 1; i } a[n() - 1] = n(); push(__o, a); ", ["[0, 1]"]),
    ("fn f(n) { let g = fn(k) { if k == 0 { n } else { g(k - 1) } }; g(3) } push(__o, f(42));", ["42"]),
    ("push(__o, 1 / 0); push(__o, 5);", ["RUNTIME-ERROR"]),
    ("push(__o, 1); push(__o, [1, 2][2]); push(__o, 3);", ["1", "RUNTIME-ERROR"]),
    ("fn f(a) { a } push(__o, f(1, 2));", ["RUNTIME-ERROR"]),
    ("let q = 5; push(__o, q(1));", ["RUNTIME-ERROR"]),
    ("fn f() { return 1; } return 2;", "compile_error"),
    ("loop { fn f() { break; } break; }", "compile_error"),
    ("a: loop { fn f() { break a; } break; }", "compile_error"),
    ("fn f() { undefined_name } push(__o, 1);", "compile_error"),
]


def fresh_value_scenarios():
    """array `+` yields a new array whatever the operands are (also when one of them is empty at run time): changes made
    through the result never show in an operand and vice versa; plain binding and argument passing do alias"""
    out = []

    def show_list(x):
        return "[" + ", ".join(str(v) for v in x) + "]"
    empties = ["[]", "rest([1])", "(fn() { [] })()", "e0"]
    for A in ([], [1, 2, 3]):
        for B in ([], [9]):
            for ea in (empties if not A else [None]):
                for eb in (empties if not B else [None]):
                    la = ea if ea else show_list(A)
                    lb = eb if eb else show_list(B)
                    text = "let e0 = []; let a = %s; let b = %s; let r = a + b; push(r, 4); r[0] = 7; " % (la, lb)
                    text += "push(__o, cp(a)); push(__o, cp(b)); push(__o, cp(r)); push(a, 5); push(b, 6); push(__o, cp(r)); push(__o, cp(a)); push(__o, cp(b));"
                    a, b = list(A), list(B)
                    r = a + b
                    r.append(4)
                    r[0] = 7
                    exp = [show_list(a), show_list(b), show_list(r)]
                    a.append(5)
                    b.append(6)
                    exp += [show_list(r), show_list(a), show_list(b)]
                    if ea == "e0" or eb == "e0":
                        if ea == "e0" and eb == "e0":
                            continue     # a and b are the same object then: covered below
                    out.append((text, exp))
    out.append(("let base = [1, 2, 3]; let all = base + []; push(all, 4); push(__o, cp(base)); push(__o, cp(all));", ["[1, 2, 3]", "[1, 2, 3, 4]"]))
    out.append(("let base = [1, 2, 3]; let all = [] + base; all[1] = 0; push(__o, cp(base)); push(__o, cp(all));", ["[1, 2, 3]", "[1, 0, 3]"]))
    out.append(("let e = []; let x = e + e; push(x, 1); push(__o, cp(e)); push(__o, cp(x)); push(e, 2); push(__o, cp(x));", ["[]", "[1]", "[1]"]))
    out.append(("fn add(xs, ys) { xs + ys } let p = [1]; let q = add(p, []); push(q, 2); push(__o, cp(p)); let w = add([], p); push(w, 3); push(__o, cp(p));", ["[1]", "[1]"]))
    out.append(("let a = [[1], [2]]; let b = a + []; push(b[0], 9); push(b, [3]); push(__o, cp(a)); push(__o, cp(b));", ["[[1, 9], [2]]", "[[1, 9], [2], [3]]"]))
    out.append(("let a = [1]; let i = 0; let acc = a; while i < 3 { acc = acc + []; push(acc, i); i = i + 1; } push(__o, cp(a)); push(__o, cp(acc));", ["[1]", "[1, 0, 1, 2]"]))
    out.append(("let a = [1]; let b = a; push(b, 2); fn f(x) { push(x, 3); } f(a); push(__o, cp(a)); push(__o, cp(b));", ["[1, 2, 3]", "[1, 2, 3]"]))
    out.append(("fn mk() { { let x = 1; return fn() { let y = x; let x = 10; x + y }; } } push(__o, mk()());", ["11"]))
    out.append(("fn mk() { { { let v = 7; return fn(k) { let w = v + k; let v = 100; [w, v] }; } } } push(__o, mk()(1));", ["[8, 100]"]))
    out.append(("fn d(a, z) { a / z } push(__o, d(7.5, 2)); push(__o, d(9, 2));", ["3.75f", "4"]))
    # literals are evaluated afresh each time: a function or a loop body that returns an array / map literal of any size
    # hands out a new object on every evaluation
    for n in (0, 1, 5, 31, 32, 33, 64, 100, 300):
        elems = ", ".join(str(i % 7) for i in range(n))
        out.append(("fn mk() { [%s] } let a = mk(); push(a, 99); %s let b = mk(); push(__o, len(a)); push(__o, len(b)); push(__o, len(mk()));%s"
                    % (elems, "a[0] = 77;" if n else "", " push(__o, b[0]); push(__o, mk()[0]);" if n else ""),
                    [str(n + 1), str(n), str(n)] + (["0", "0"] if n else [])))
        out.append(("let rs = []; let i = 0; while i < 3 { let t = [%s]; push(t, i); push(rs, t); i = i + 1; } push(__o, len(rs[0])); push(__o, len(rs[2])); push(__o, rs[0][%d]); push(__o, rs[2][%d]);"
                    % (elems, n, n), [str(n + 1), str(n + 1), "0", "2"]))
    for n in (0, 1, 8, 32, 40):
        pairs = ", ".join("%d: %d" % (i, i * 2) for i in range(n))
        out.append(("fn mk() { map {%s} } let a = mk(); insert(a, 1000, 1); let b = mk(); push(__o, len(a)); push(__o, len(b)); push(__o, len(mk()));" % pairs, [str(n + 1), str(n), str(n)]))
    out.append(("fn mk() { [\"a\", \"b\", 'c', 1.5, true, byte(1), 3, 3, 3, 3, 3, 3, 3, 3, 3, 3, 3, 3, 3, 3, 3, 3, 3, 3, 3, 3, 3, 3, 3, 3, 3, 3, 3, 3] } let a = mk(); a[0] = \"z\"; push(__o, mk()[0]); push(__o, a[0]);", ["\"a\"", "\"z\""]))
    out.append(("let s = \"ab\"; let t = s + \"\"; let u = \"\" + s; push(__o, t == s); push(__o, u); push(__o, s * 1);", ["true", "\"ab\"", "\"ab\""]))
    # names bound inside a top-level block stay what they are for a function made there, whatever is defined after the block
    for nb in (1, 2, 4):
        for nl in (1, 3, 8):
            for wrap in ("{ %s }", "if true { %s }", "let once = true; while once { once = false; %s }", "{ { %s } }"):
                for writes in (False, True):
                    inner = " ".join("let b%d = %d;" % (i, 100 + i) for i in range(nb))
                    body = ("b0 = b0 + 1; " if writes else "") + " + ".join("b%d" % i for i in range(nb))
                    inner += " keep = fn() { %s };" % body
                    later = " ".join("let n%d = %d;" % (i, 7000 + i) for i in range(nl))
                    text = "let keep = null; " + (wrap % inner) + " " + later + " push(__o, keep()); " + " ".join("push(__o, n%d);" % i for i in range(nl)) + " push(__o, keep());"
                    tot = sum(100 + i for i in range(nb))
                    exp = [str(tot + (1 if writes else 0))] + [str(7000 + i) for i in range(nl)] + [str(tot + (2 if writes else 0))]
                    out.append((text, exp))
    # == / != on containers of different sizes, both orders, nested
    for a, b, eq in (('map {"a": 1}', 'map {"a": 1, "b": 2}', False), ("map {}", "map {1: 2}", False), ("[1]", "[1, 2]", False), ("[]", "[[]]", False),
                     ('[map {1: 2}]', '[map {1: 2, 3: 4}]', False), ('map {1: [1]}', 'map {1: [1, 2]}', False), ('map {1: 2, 3: 4}', 'map {3: 4, 1: 2}', True),
                     ('map {1: map {}}', 'map {1: map {2: 3}}', False), ("[1, [2, 3]]", "[1, [2, 3]]", True), ('map {"k": [1, 2]}', 'map {"k": [1, 2]}', True)):
        t = str(eq).lower()
        f = str(not eq).lower()
        out.append(("let a = %s; let b = %s; push(__o, a == b); push(__o, b == a); push(__o, a != b); push(__o, b != a); push(__o, %s == %s); push(__o, %s == %s);" % (a, b, a, b, b, a),
                    [t, t, f, f, t, t]))
    # match arms whose patterns are two ranges of one kind (every kind that has ranges), literal arms of that kind before / after
    for kind, lits in (("int", ["1", "5", "9", "10", "20", "30"]), ("byte", ["b'a'", "b'e'", "b'i'", "b'j'", "b't'", "b'z'"]),
                       ("char", ["'a'", "'e'", "'i'", "'j'", "'t'", "'z'"]), ("string", ['"a"', '"e"', '"i"', '"j"', '"t"', '"z"'])):
        lo1, mid1, hi1, lo2, mid2, hi2 = lits
        for first_literal in (False, True):
            arms = ("%s => 9, " % hi2 if first_literal else "") + "%s..%s => 1, %s..=%s => 2, _ => 0" % (lo1, hi1, lo2, hi2)
            probes = [(lo1, 1), (mid1, 1), (hi1, 0), (lo2, 2), (mid2, 2), (hi2, 9 if first_literal else 2)]
            out.append(("fn cls(v) { match v { %s } } " % arms + " ".join("push(__o, cls(%s));" % v for v, _ in probes), [str(e) for _, e in probes]))
    # the compile-time rules inside filter patterns and actions: an action is not a function body (no return), loops and
    # functions written inside it follow the ordinary rules
    for t in ("@ true { return; }", "@ true { return 1; }", "@ end { return; }", "@ { if true { return 2; } }", "@ true { while true { return; } }",
              "@ true { { return; } }", "@ true { match 1 { 1 => { return; }, _ => { } } }", "@ true { break; }", "@ end { continue; }", "@ true { zz_undefined; }",
              "@ zz_undefined", "@ zz_undefined { 1; }", "@ true { loop { break nolabel; } }", "@ true { let f = fn() { break; }; }", "@ end { fn g() { continue; } }",
              "let f = fn() { 1 }; @ true { f(); return; }"):
        out.append((t, "compile_error"))
    for t in ("@ true { let f = fn() { return 1; }; f(); }", "@ end { fn g() { return 2; } g(); }", "@ true { while true { break; } }", "@ true { loop { break; } }",
              "@ true { let i = 0; outer: while i < 2 { i = i + 1; loop { continue outer; } } }", "@ true { fn h(x) { if x { return 1; } 2 } h(0); }",
              "fn top() { return 5; } @ top() == 5 { top(); }"):
        out.append((t, []))
    # a value compared with itself through one name: not-a-number is unequal to itself however it is reached
    out.append(("let x = 1e999 - 1e999; push(__o, x != x); push(__o, x == x); if x != x { push(__o, \"nan\"); } let a = [x]; push(__o, a[0] != a[0]); "
                "fn ne(v) { v != v } push(__o, ne(x)); push(__o, ne(1.5)); let y = 2; push(__o, y != y); push(__o, y == y);",
                ["true", "false", "\"nan\"", "true", "true", "false", "false", "true"]))
    CP = "fn cp(x) { let c = []; let i = 0; while i < len(x) { push(c, x[i]); i = i + 1; } c } "
    return [(CP + t, e) for t, e in out]


def run(chk):
    rng = chk.rng
    quick = chk.tier == "quick"
    chk.rule = ("random programs (<= 12 top-level statements, expression depth <= 4, functions nested <= 3, bounded loops) over "
                "literals, operators, let/assignment, arrays, maps, indexing, functions, closures, recursion, pure builtins, "
                "if/match/loops; plus targeted evaluation-order programs and one-fault ill-formed variants; distinct = distinct "
                "set of AST node kinds")
    chk.assumptions = ["gen.py's definitional evaluator is the reference semantics (DESIGN.md section 4); evaluations that reach an "
                       "unspecified corner are discarded and counted", "names are unique per program here (shadowing is C04's workload)"]
    chk.floor = 1500
    chk.rule += '; plus hand-written scenarios (recursion through helper closures, fresh-value semantics of array + and of literals, capture-then-shadow, functions made in top-level blocks called after later definitions, == / != on containers of different sizes, match over two ranges of every kind that has ranges, the compile-time rules (return, break, continue, undefined names) inside filter patterns and actions)'
    n = 4000 if quick else 150000
    jobs = []
    unspec = {}
    while len(jobs) < n:
        g = gen.Gen(rng, max_depth=rng.choice([2, 3, 4]))
        prog = g.program()
        ev = gen.evaluate(prog)
        if ev["status"] in ("ok", "error") and ev.get("tags"):
            ev = {"status": "unspecified", "reason": "belongs to another property: " + ",".join(sorted(ev["tags"]))}
        if ev["status"] in ("unspecified", "steps"):
            unspec[ev.get("reason", ev["status"])] = unspec.get(ev.get("reason", ev["status"]), 0) + 1
            if sum(unspec.values()) > 20 * n:
                break
            continue
        text, _ = gen.render(prog)
        jobs.append(("wf", prog, gen.PRELUDE + text, ev))
        if rng.random() < 0.15:
            fp, fault = inject_fault(rng, prog)
            ftext, _ = gen.render(fp)
            jobs.append(("fault:" + fault, fp, gen.PRELUDE + ftext, None))
    # evaluation order: side-effecting probes in every operand position
    t = lambda k: ("call", ("var", "t"), [("lit", k)])
    order_programs = []
    ops = ["+", "-", "*", "<", "<=", ">", ">=", "==", "!=", "&", "<<"]
    for op in ops:
        order_programs.append([("expr", ("bin", op, t(1), t(2)))])
        order_programs.append([("expr", ("bin", op, ("bin", op, t(1), t(2)), t(3)))])
        order_programs.append([("expr", ("bin", "+", ("bin", op, t(1), t(2)), ("bin", op, t(3), t(4))))])
    order_programs += [
        [("expr", ("arr", [t(1), t(2), t(3)]))],
        [("expr", ("map", [(t(1), t(2)), (t(3), t(4))]))],
        [("expr", ("call", ("var", "g3"), [t(1), t(2), t(3)]))],
        [("expr", ("index", ("arr", [t(1), t(2)]), ("bin", "-", t(1), t(1))))],
        [("let", "w", ("arr", [("lit", 0), ("lit", 0), ("lit", 0)])), ("expr", ("assign", ("index", ("var", "w"), ("bin", "-", t(2), ("lit", 1))), t(3)))],
        [("let", "w", ("lit", 0)), ("expr", ("assign", ("var", "w"), ("bin", "+", t(1), t(2))))],
        [("let", "w", ("lit", 0)), ("let", "u", ("lit", 0)), ("expr", ("assign", ("var", "w"), ("assign", ("var", "u"), t(5))))],
        [("expr", ("bin", "&&", t(0), t(2)))], [("expr", ("bin", "||", t(0), t(2)))], [("expr", ("bin", "&&", t(1), t(2)))],
        [("expr", ("if", t(1), [("expr", t(2))], [("expr", t(3))]))],
        [("expr", ("match", t(2), [([("plit", 1)], [("expr", t(10))]), ([("plit", 2), ("plit", 3)], [("expr", t(20))]), ([("pdefault",)], [("expr", t(30))])]))],
        [("expr", ("call", ("index", ("arr", [("var", "g3")]), ("bin", "-", t(1), t(1))), [t(2), t(3), t(4)]))],
    ]
    pre = [("fnstmt", "t", ["k"], [("expr", ("call", ("var", "push"), [("var", "__o"), ("var", "k")])), ("expr", ("var", "k"))]),
           ("fnstmt", "g3", ["a", "b", "c"], [("expr", ("bin", "+", ("var", "a"), ("bin", "+", ("var", "b"), ("var", "c"))))])]
    for body in order_programs:
        prog = pre + body
        ev = gen.evaluate(prog)
        text, _ = gen.render(prog)
        jobs.append(("order", prog, gen.PRELUDE + text, ev))

    cases = [Case("p%d" % i, text, {"globals": "__o", "final": 1, "steps": 400000}) for i, (_, _, text, _) in enumerate(jobs)]
    scenarios = SCENARIOS + fresh_value_scenarios()
    for i, (text, exp) in enumerate(scenarios):
        cases.append(Case("s%d" % i, gen.PRELUDE + text, {"globals": "__o", "steps": 400000}))
    res = core.run_cases(cases)
    for i, (text, exp) in enumerate(scenarios):
        r = res.get("s%d" % i)
        if r is None:
            chk.inconc("missing result")
            continue
        oc = r.get("outcome")
        chk.observed(("scenario", i))
        if oc == "panic":
            continue
        got = [show(x) for x in canon_dump(r["globals"]["__o"])[1]] if "globals" in r else None
        if exp == "compile_error":
            ok = oc == "compile_error"
        elif exp and exp[-1] == "RUNTIME-ERROR":
            ok = oc == "rt_error" and got == exp[:-1]
        else:
            ok = oc == "ok" and got == exp
        if not ok:
            chk.violation("scenario|%d" % i, "%s: expected %s, observed %s (%s %s)" % (text, exp, got, oc, r.get("rt") or r.get("diag") or ""),
                          {"src": text, "expected": exp, "observed": got, "outcome": oc})
    for i, (cls, prog, text, ev) in enumerate(jobs):
        r = res.get("p%d" % i)
        if r is None:
            chk.inconc("missing result")
            continue
        oc = r.get("outcome")
        kinds = node_kinds(prog)
        if cls.startswith("fault:"):
            chk.observed(("fault", cls, oc == "compile_error"))
            if oc == "panic":
                continue
            if oc != "compile_error":
                chk.violation("accepted|%s" % cls, "ill-formed program (%s) was not rejected by the compiler: outcome %s" % (cls, oc),
                              {"src": text, "result": {k: v for k, v in r.items() if k != "globals"}})
            continue
        if compare(chk, prog, text, r, ev, kinds if cls != "order" else {"order"}, "sem" if cls != "order" else "order"):
            chk.observed(frozenset(kinds) if cls != "order" else ("order", text[-60:]))
            if i % 499 == 0:
                chk.sample({"program": core.short(text, 400), "expected": ev["status"],
                            "observations": [show(x) for x in ev["obs"][:8]]})
    for k, v in unspec.items():
        chk.count("discarded: " + k, v)
