"""C01 - scanning, parsing and compiling are total on every source text.

Monitor: panic hook + catch_unwind + worker exit status around the real
scanner/parser/compiler (in-process probe), a logical token budget for
progress, and the process boundary of the real binary for confirmation and
for "a diagnosed program is not executed"."""
import glob
import os
import re

from . import core, sanit
from .core import Case

CHARS = ["'", '"', "b", "0", "x", "o", "1", "e", ".", "=", ":", ";", ",", "(", ")", "{", "}", "[", "]",
         "a", "_", "@", "$", "#", "/", "\n", " ", "-", "!", "|", "é", "\U0001F496"]
CORE_CHARS = ["'", '"', "b", "0", "x", "1", "e", ".", "=", ":", "(", "{", "a", "\n"]

TOKENS = ["let", "fn", "true", "false", "if", "else", "return", "null", "map", "loop", "while", "break",
          "continue", "match", "struct", "stdin", "end", "_", "a", "lbl", "1", "0x1", "0o7", "0b1", "1e",
          "1.e5", "1.5", '"s"', "'c'", "b'c'", ";", ",", ":", "(", ")", "{", "}", "[", "]", "+", "-", "*",
          "/", "%", "^", "~", "$", "@", "!", "!=", "&", "&&", "|", "||", "=", "==", "=>", "<", "<=", "<<",
          ">", ">=", ">>", "..", "..=", ".a", "puts", "0x", "'", "b'", '""']

SEEDS = [
    "let a = 1; let b = a + 2 * 3; puts(a, b);",
    "fn fib(n) { if n < 2 { return n; } fib(n - 1) + fib(n - 2) } puts(fib(10));",
    "let m = map {1: \"a\", \"b\": [1, 2, 3]}; m[1] = 2; puts(m[\"b\"][0]);",
    "let i = 0; outer: while i < 10 { i = i + 1; loop { if i % 2 == 0 { continue outer; } break; } }",
    "let x = match 5 { 1 | 2 => \"low\", 3..=7 => { \"mid\" } _ => \"hi\" }; puts(x);",
    "@ NP < 10 && ($1).type == 0x800 { puts($2.src); } @ end { puts(NP); }",
    "let f = fn(a, b) { let c = fn() { a + b }; c }; puts(f(1, 2)());",
    "let c = 'x'; let d = b'y'; let s = \"str\"; puts(c, d, s, 0x1F, 0o17, 0b101, 1.5e3, .5);",
    "pkt.eth.src = \"00:11:22:33:44:55\"; let p = pcap_open(\"f\"); p.snaplen;",
    "let a = [1, 2, 3]; a[0] = a[1] = 5; if !a { } else if a { puts(~1, -2, !3) } else { null }",
]


UNI = ["\u0661", "\uff11", "\u09e9", "\u00bd", "\u00b2", "\u2460", "\u2167", "\u3007", "\u00e9", "\u03a9", "\u65e5", "\U0001d4b3", "\U0001f496",
       "\u0301", "\u200d", "\u200c", "\ufeff", "\u00a0", "\u2028", "\u2029", "\u0085", "\u200f", "\ud7ff", "\ue000", "\uffff", "\U0010ffff",
       "\x00", "\x01", "\x7f", "\t", "\r", "\x0b", "\x0c", "\u00df", "\u0130", "\u01c5", "\u2002", "\u3000", "\u00ad", "\u20ac"]
UNI_CTX = ["{c}", "let x = {c};", "{c}{c}", "a{c}", "{c}a", "1{c}", "{c}1", "\"{c}", "\"{c}\"", "'{c}'", "'{c}", "b'{c}'", "#{c}\n1", "//{c}", "x.{c}", "${c}", "@{c}",
           "0x{c}", "1e{c}", "1.{c}", "{c}: loop {{ }}", "break {c};", "fn {c}() {{ }}", "fn f({c}) {{ }}", "map {{{c}: 1}}", "[{c}]", "f({c})", "{c} = 1;", "1 + {c}",
           "match 1 {{ {c} => 1 }}", "if {c} {{ }}", "-{c}", "{c}..{c}", "let {c} = 1; {c}"]


def unicode_texts():
    """characters of every Unicode class in every lexical position"""
    out = []
    for c in UNI:
        for ctx in UNI_CTX:
            out.append(ctx.format(c=c))
    return out


def long_name_texts():
    """long identifiers / tokens whose multi-byte characters straddle every byte offset up to 70, wherever a diagnostic may quote them"""
    out = []
    tmpls = ["{n};", "let x = {n} + 1;", "{n} = 1;", "{n}(1);", "fn f() {{ {n} }} f();", "let {n} = 1; {n};", "break {n};", "{n}: loop {{ break {n}; }}",
             "x.{n};", "let a = 1; a.{n};", "${n}", "\"{n}", "'{n}'", "0x{n}", "1{n}", "@ {n}", "fn {n}({n}) {{ {n} }} {n}(1);", "let s = \"{n}\"; s.{n}",
             "continue {n};", "map {{{n}: 1}};", "match {n} {{ 1 => 1 }};", "{n}.{n}.{n};"]
    wide = ["\u00e9", "\u65e5", "\U0001d4b3"]
    for pre in range(0, 70):
        for w in wide:
            name = "a" * pre + w * 3 + "z" * 5
            for t in (tmpls if pre % 7 == 0 or 28 <= pre <= 34 or 60 <= pre <= 66 else tmpls[:6]):
                out.append(t.format(n=name))
    for pre in (1, 2, 3, 5):
        for w in wide:
            for N in list(range(56, 70)) + list(range(120, 132)) + list(range(240, 262)):
                name = "x" * pre + w * N
                out.append("%s;" % name)
                out.append("break %s;" % name)
                out.append("loop { continue %s; }" % name)
    for L in (10, 11, 12, 16, 17, 20, 31, 32, 33, 64, 65, 100, 255, 256, 257, 1000):
        for w in wide:
            for t in tmpls[:8]:
                out.append(t.format(n=w * L))
    return out


def label_scope_texts():
    """labelled loops, function literals / function statements / filter statements nested in them, and break / continue with
    every label in scope or out of scope, at every depth up to 3 loops outside and 2 inside the function"""
    out = []
    labels = ["x", "y", "z"]
    for outer in range(1, 4):
        for inner in range(0, 3):
            for kw in ("break", "continue"):
                for target in labels[:outer] + ["q", "w"]:
                    for wrap in ("let f = fn() { %s };", "fn g() { %s }", "@ true { %s }", "let h = fn(a) { fn() { %s } };"):
                        body = "%s %s;" % (kw, target)
                        for d in range(inner):
                            body = "%sloop { %s }" % (("w: " if d == inner - 1 and inner > 1 else ""), body)
                        text = wrap % body
                        for d in range(outer - 1, -1, -1):
                            text = "%s: loop { %s break %s; }" % (labels[d], text, labels[d])
                        out.append(text)
    return out


def gather_seed_texts():
    out = list(SEEDS)
    for p in sorted(glob.glob(os.path.join(core.REPO, "examples", "**", "*.p2"), recursive=True)):
        try:
            out.append(open(p, encoding="utf-8").read())
        except Exception:
            pass
    for p in sorted(glob.glob(os.path.join(core.REPO, "docs", "**", "*.md"), recursive=True)):
        try:
            t = open(p, encoding="utf-8").read()
        except Exception:
            continue
        for m in re.finditer(r"```[a-z]*\n(.*?)```", t, re.S):
            b = m.group(1)
            if 0 < len(b) < 1500:
                out.append(b)
    return out


def mutate(rng, text):
    n = rng.randint(1, 4)
    for _ in range(n):
        if not text:
            text = rng.choice(TOKENS)
        k = rng.randrange(6)
        i = rng.randrange(len(text) + 1)
        if k == 0:      # delete span
            j = min(len(text), i + rng.randint(1, 6))
            text = text[:i] + text[j:]
        elif k == 1:    # insert token
            text = text[:i] + rng.choice([" ", "", "\n"]) + rng.choice(TOKENS) + rng.choice([" ", ""]) + text[i:]
        elif k == 2:    # duplicate span
            j = min(len(text), i + rng.randint(1, 12))
            text = text[:j] + text[i:j] + text[j:]
        elif k == 3:    # replace one char
            if i < len(text):
                text = text[:i] + rng.choice(CHARS) + text[i + 1:]
        elif k == 4:    # truncate
            text = text[:i]
        else:           # insert char
            text = text[:i] + rng.choice(CHARS) + text[i:]
    return text


def depth_ok(text):
    d = m = 0
    for ch in text:
        if ch in "([{":
            d += 1
            m = max(m, d)
        elif ch in ")]}":
            d = max(0, d - 1)
    return m <= 64


def ladders():
    out = []
    for d in list(range(1, 65)):
        out.append("(" * d + "1" + ")" * d)
        out.append("[" * d + "1" + "]" * d)
        out.append("{" * d + "1" + "}" * d)
        out.append("-" * d + "1")
        out.append("!" * d + "a")
        out.append("~" * d + "1")
        out.append("if true {" * d + "1" + "}" * d)
        out.append("if 0 {} else " * d + "{}")
        out.append("let f = " + "fn() {" * d + "1" + "}" * d + ";")
        out.append("map {1: " * d + "1" + "}" * d)
        out.append("match 1 { 1 => " * d + "1" + " }" * d)
        out.append("loop {" * d + "break;" + "}" * d)
        out.append("while 1 {" * d + "}" * d)
        out.append("let a = [1]; a" + "[0]" * d)
        out.append("let f = 1; f" + "()" * d)
        out.append("1" + " + (1" * d + ")" * d)
        out.append("@ " + "(" * d + "1" + ")" * d + " {" * min(d, 60) + "}" * min(d, 60))
        out.append("a = " * d + "1")
        out.append("(" * d)          # unbalanced
        out.append("[" * d)
        out.append("{" * d)
        out.append("map {" * d)
        out.append("if 1 {" * d)
        out.append("fn(" * d)
    # long operator chains: no brackets at all, but a deep AST
    return out


def chains():
    """long operator chains: no brackets at all, but a deep AST"""
    out = []
    for n in (10, 100, 200, 300, 1000, 3000, 20000):
        out.append(("chain-binary", "1" + " + 1" * n))
        out.append(("chain-assign", "let a = 0; a" + " = a" * min(n, 3000)))
        out.append(("chain-logical", "1" + " && 1" * n))
        out.append(("chain-prefix", "-" * min(n, 3000) + "1"))
        out.append(("chain-index", "let a = []; a" + "[0]" * min(n, 3000)))
        out.append(("chain-elseif", "if 0 {}" + " else if 0 {}" * min(n, 3000)))
    return out


FAULTS = [
    "let = 5;", "let x 5;", "1 +", "(1", "[1, 2", "map {1: }", "fn (a { }", "if { }", "match 1 { 1 => }",
    "zzz", "break;", "continue;", "return 1;", "loop { break foo; }", "x: 1;", "'", "b'", "\"abc",
    "0x", "1e", "1 = 2;", "let a = b;", "@ {", "@", "match 1 { 1 => 1, \"a\" => 2 }", "_", "1..2",
    "0x1 = 2", "a: 5", "$", "$a", "1 ? 2", "let s = struct;", "fn f( { }", "map {", "if 1 {} else",
    "match 1 { _ => 1, _ => 2 }", "match 1 { _ => 1, 2 => 2 }", "a.zz", "@ end 1", "1 +* 2",
]


def run(chk):
    rng = chk.rng
    quick = chk.tier == "quick"
    chk.rule = ("bounded-exhaustive character strings and token sequences enumerated inside the probe; random "
                "token soup; mutated documentation/example programs; nesting ladders to depth 64; distinct = "
                "distinct (generator class, front-end outcome, first diagnostic class) plus one per enumerated sub-space")
    chk.assumptions = [
        "termination is decided in logical time: a token budget of 20*(chars+16) marks a suspect, only a solo run of "
        "the real binary that is still alive after 20 s (twice) counts as non-termination",
        "nesting deeper than 64 brackets is outside the property and is not generated",
    ]
    chk.floor = 20000
    chk.rule += '; plus characters of every Unicode class in every lexical position, long identifiers whose multi-byte characters straddle every byte offset up to 70, and the empty string literal in the token vocabulary; diagnosed-not-executed also through -c and through REPL lines (markers and a counter that a diagnosed line must not touch)'
    fails = []   # (site, msg, witness, origin)

    # ---- (1)(2) enumerations inside the probe
    enum_cases = []
    shards = core.NCPU
    char_lens = [1, 2, 3] if quick else [1, 2, 3, 4]
    for L in char_lens:
        ns = 1 if L < 3 else shards
        for s in range(ns):
            enum_cases.append(Case("chars-%d-%d" % (L, s), "".join(CHARS),
                                   {"kind": "chars", "len": L, "shard": "%d/%d" % (s, ns)}, cmd="ENUM"))
    if not quick:
        for s in range(shards):
            enum_cases.append(Case("core-5-%d" % s, "".join(CORE_CHARS),
                                   {"kind": "chars", "len": 5, "shard": "%d/%d" % (s, shards)}, cmd="ENUM"))
    tok_lens = [1, 2, 3] if quick else [1, 2, 3, 4]
    for L in tok_lens:
        ns = 1 if L < 3 else (shards if L == 3 else shards * 4)
        for s in range(ns):
            enum_cases.append(Case("toks-%d-%d" % (L, s), "\x1f".join(TOKENS),
                                   {"kind": "tokens", "len": L, "shard": "%d/%d" % (s, ns)}, cmd="ENUM"))
    res = core.run_cases(enum_cases, shards=shards, timeout=(60 if quick else 900), max_hangs=1)
    enum_total = 0
    outcome_hist = {}
    stuck = []
    for c in enum_cases:
        r = res.get(c.id)
        if not r or "evaluated" not in r:
            stuck.append(c)
            continue
        enum_total += r["evaluated"]
        for k, v in r["counts"].items():
            outcome_hist[k] = outcome_hist.get(k, 0) + v
        for f in r["fails"]:
            fails.append((f["site"], f["msg"], f["witness"], c.id))
        chk.shapes.add(("enum", c.id.rsplit("-", 1)[0]))
    # a shard that died or hung is replayed text by text so that the culprit is identified
    if stuck:
        import itertools
        replay = []
        for c in stuck[:4]:
            syms = CHARS if c.id.startswith("chars") else (CORE_CHARS if c.id.startswith("core") else TOKENS)
            sep = "" if not c.id.startswith("toks") else " "
            L = int(c.flags["len"])
            si, sn = [int(x) for x in c.flags["shard"].split("/")]
            for k, tup in enumerate(itertools.product(syms, repeat=L)):
                if k % sn == si:
                    replay.append(("enum-replay", sep.join(tup)))
            if len(replay) > 400000:
                break
        rcases = [Case("x%d" % i, t, {"stage": "compile"}) for i, (_, t) in enumerate(replay)]
        rres = core.run_cases(rcases, shards=shards, timeout=25, max_hangs=1)
        found = 0
        for i, (cls, t) in enumerate(replay):
            rr = rres.get("x%d" % i) or {}
            oc = rr.get("outcome")
            if oc == "panic":
                fails.append((rr["panic"]["loc"], rr["panic"]["msg"], t, cls))
                found += 1
            elif oc == "token_budget":
                fails.append(("token_budget", "", t, cls))
                found += 1
            elif oc in ("hang", "died"):
                fails.append((oc + ":" + cls, str(rr.get("rc")), t, cls))
                found += 1
        chk.count("enumeration_shards_replayed_text_by_text", len(stuck[:4]))
        if not found:
            chk.inconc("an enumeration shard died or timed out and the replay found no culprit")
    chk.observed(None, enum_total)
    chk.count("enumerated_texts", enum_total)
    for k, v in outcome_hist.items():
        chk.count("enum_outcome_" + k, v)
    chk.sample({"enumeration": "all strings over %d chars up to length %d; all sequences over %d tokens up to length %d"
                % (len(CHARS), char_lens[-1], len(TOKENS), tok_lens[-1]), "outcomes": outcome_hist})
    chk.extra["exhaustive_subspaces"] = ["chars^<=%d over %d symbols" % (char_lens[-1], len(CHARS)),
                                         "tokens^<=%d over %d symbols" % (tok_lens[-1], len(TOKENS))]

    # ---- (3)(4)(5) generated texts
    texts = []
    n_soup = 20000 if quick else 400000
    for i in range(n_soup):
        n = rng.randint(5, 80)
        parts = []
        for _ in range(n):
            parts.append(rng.choice(TOKENS))
            parts.append(rng.choice([" ", " ", " ", "\n", ""]))
        t = "".join(parts)
        if depth_ok(t):
            texts.append(("soup", t))
    seeds = gather_seed_texts()
    try:
        from . import gen
        for i in range(300 if quick else 3000):
            seeds.append(gen.random_program_text(rng))
    except Exception:
        pass
    n_mut = 20000 if quick else 300000
    for i in range(n_mut):
        t = mutate(rng, rng.choice(seeds))
        if depth_ok(t) and len(t) < 4000:
            texts.append(("mutated", t))
    for s in seeds:
        texts.append(("seed", s))
        for cut in range(0, len(s), max(1, len(s) // 40)):
            texts.append(("prefix", s[:cut]))
    for t in ladders():
        texts.append(("ladder", t))
    for t in unicode_texts():
        texts.append(("unicode", t))
    for t in long_name_texts():
        texts.append(("long-name", t))
    for t in label_scope_texts():
        texts.append(("label-scope", t))
    texts.extend(chains())
    cases = [Case("t%d" % i, t, {"stage": "compile"}) for i, (_, t) in enumerate(texts)]
    res = core.run_cases(cases, shards=shards, timeout=(60 if quick else 600), max_hangs=1)
    # sanitizer sweeps over the same corpus (DESIGN section 8): thorough tier, or as soon as `unsafe` appears in the tree
    unsafe_hits = sanit.want_quick()
    if unsafe_hits:
        chk.count("unsafe code present: %s" % ", ".join(unsafe_hits[:5]))
    if not quick or unsafe_hits:
        sanit.asan_sweep(chk, cases, "c01", limit=(150000 if not quick else 30000))
    if not quick:
        sanit.miri_sweep(chk, [c for c in cases if len(c.src) < 120], "c01", limit=48)
    for i, (cls, t) in enumerate(texts):
        r = res.get("t%d" % i)
        if r is None:
            chk.inconc("missing result")
            continue
        oc = r.get("outcome")
        if oc in ("ok", "parse_errors", "compile_error"):
            d = ""
            if r.get("diag"):
                d = re.sub(r"\[line \d+\] ", "", r["diag"][0])
                d = re.sub(r"'[^']*'", "'_'", d)[:40]
            chk.observed((cls, oc, d))
            if i % 9973 == 0:
                chk.sample({"class": cls, "text": core.short(t, 160), "outcome": oc, "diag": r.get("diag", [])[:1]})
        elif oc == "panic":
            fails.append((r["panic"]["loc"], r["panic"]["msg"], t, cls))
        elif oc == "token_budget":
            fails.append(("token_budget", "", t, cls))
        elif oc in ("hang", "died"):
            fails.append((oc + ":" + cls, str(r.get("rc")), t, cls))
        elif oc == "skipped":
            chk.inconc("not run: an earlier text of the same shard hung")
        else:
            chk.inconc("probe outcome %s" % oc)

    # ---- nesting ladders and operator chains also run on the real dev binary (its frames are larger than the probe's)
    from concurrent.futures import ThreadPoolExecutor
    deep = [(cls, t) for cls, t in texts if cls == "ladder" or cls.startswith("chain")]
    wdir = core.scratch_dir()
    try:
        def run_deep(k):
            cls, t = deep[k]
            path = os.path.join(wdir, "d%d.p2" % k)
            with open(path, "w", encoding="utf-8") as f:
                f.write(t)
            rr = core.run_binary([path], timeout=60, step_budget=1000)
            os.unlink(path)
            return rr
        with ThreadPoolExecutor(max_workers=core.NCPU) as ex:
            for k, rr in enumerate(ex.map(run_deep, range(len(deep)))):
                cls, t = deep[k]
                if rr["timeout"]:
                    chk.inconc("timeout of the dev binary on a ladder text")
                    continue
                chk.observed((cls + "/binary", core.crashed(rr)))
                if core.crashed(rr):
                    fails.append(("died:" + cls, str(rr["rc"]), t, cls))
        chk.count("ladder_and_chain_texts_on_dev_binary", len(deep))
    finally:
        import shutil
        shutil.rmtree(wdir, ignore_errors=True)

    # ---- confirm every distinct failure site on the real binary
    by_site = {}
    for site, msg, wit, origin in fails:
        e = by_site.setdefault(site, [msg, wit, origin, 0])
        e[3] += 1
        if len(wit) < len(e[1]):
            e[1] = wit
    work = core.scratch_dir()
    try:
        for site, (msg, wit, origin, cnt) in sorted(by_site.items()):
            path = os.path.join(work, "w.p2")
            with open(path, "w", encoding="utf-8") as f:
                f.write(wit)
            if site == "token_budget" or site.startswith("hang"):
                alive = 0
                for _ in range(2):
                    rr = core.run_binary([path], timeout=20)
                    if rr["timeout"]:
                        alive += 1
                if alive == 2:
                    chk.violation("nontermination|" + core.short(wit, 60),
                                  "front end does not terminate within 20 s on a %d-character text" % len(wit),
                                  {"text": wit, "origin": origin})
                else:
                    rr = core.run_binary([path], timeout=20)
                    if core.crashed(rr):
                        chk.violation("crash-after-budget|" + core.msg_class(rr["err"].decode("utf-8", "replace")[-120:]),
                                      "front end crashes", {"text": wit, "stderr": rr["err"].decode("utf-8", "replace")[-400:]})
                    else:
                        chk.inconc("token budget hit but the real binary terminates")
                continue
            confirmed = 0
            last = None
            for rel in (False, True):
                rr = core.run_binary([path], release=rel, timeout=60, step_budget=100000)
                if last is None:
                    last = rr
                if core.crashed(rr):
                    confirmed += 1
                    if not core.crashed(last):
                        last = rr
            if confirmed:
                if site.startswith("died") or site.startswith("hang"):
                    e = last["err"].decode("utf-8", "replace")
                    sig = "death|%s|%s" % (origin, "stack overflow" if "overflowed its stack" in e else core.msg_class(e[-60:]))
                else:
                    sig = "panic|" + core.panic_site_sig(site, msg)
                chk.violation(sig, "front end panics: %s at %s (%d texts; %d/2 build profiles)" % (msg, site, cnt, confirmed),
                              {"text": wit, "origin": origin, "stderr": last["err"].decode("utf-8", "replace")[-400:]})
            else:
                chk.inconc("probe-only failure at %s" % site)
        chk.count("distinct_failure_sites", len(by_site))

        # ---- (6) a diagnosed program is not executed (end to end)
        n_exec = 0
        for k, fault in enumerate(FAULTS):
            marker = "M%dK" % k
            for layout in ("puts(\"%s\");\n%s\n", "puts(\"%s\");\nfn g() { %s }\n", "%%s"):
                if layout == "%%s":
                    src = "%s\nputs(\"%s\");\n" % (fault, marker)
                else:
                    src = layout % (marker, fault)
                path = os.path.join(work, "d.p2")
                with open(path, "w", encoding="utf-8") as f:
                    f.write(src)
                rr = core.run_binary([path], timeout=20, step_budget=100000)
                if rr["timeout"]:
                    chk.inconc("timeout in diagnosed-not-executed run")
                    continue
                if core.crashed(rr):
                    continue  # crash freedom is judged above with its own signature
                err = rr["err"].decode("utf-8", "replace")
                out = rr["out"].decode("utf-8", "replace")
                diagnosed = ("parse errors" in err) or ("compile error" in err)
                n_exec += 1
                chk.observed(("diag-exec", diagnosed, marker in out))
                if diagnosed and marker in out:
                    chk.violation("executed-despite-diagnostics|" + fault,
                                  "program printed its marker although diagnostics were reported",
                                  {"text": src, "stdout": out[-200:], "stderr": err[-300:]})
        # the same through the other two ways a program text reaches the front end: -c, and a line of the REPL (one
        # session for all single-line faults; a later line shows that assignments of a diagnosed line did not happen)
        for k, fault in enumerate(FAULTS):
            if "\n" in fault or "'" in fault:
                continue
            marker = "C%dK" % k
            rr = core.run_binary(["-c", "puts(\"%s\"); %s" % (marker, fault)], timeout=20, step_budget=100000)
            if rr["timeout"] or core.crashed(rr):
                continue
            err = rr["err"].decode("utf-8", "replace")
            out = rr["out"].decode("utf-8", "replace")
            diagnosed = ("parse errors" in err) or ("compile error" in err)
            n_exec += 1
            chk.observed(("diag-exec-c", diagnosed, marker in out))
            if diagnosed and marker in out:
                chk.violation("executed-despite-diagnostics|-c|" + fault, "-c program printed its marker although diagnostics were reported",
                              {"text": fault, "stdout": out[-200:], "stderr": err[-300:]})
        lines = ["let keep = 1;"]
        idx = {}
        for k, fault in enumerate(FAULTS):
            if "\n" in fault or fault in ("@ {", "@", "@ end 1", "map {", "\"abc", "(1", "[1, 2", "1 +", "if 1 {} else"):
                continue      # (open brackets / filters would swallow or re-route the following lines)
            idx[len(lines)] = (k, fault)
            lines.append("puts(\"R%dK\"); keep = keep + 1; %s" % (k, fault))
        lines.append("puts(\"KEEP=\", keep);")
        outs, errs, rr = core.repl_session(lines, timeout=60)
        if outs is None:
            chk.inconc("REPL session for diagnosed-not-executed did not finish")
        else:
            accepted = 0
            for li, (k, fault) in idx.items():
                diagnosed = ("parse error" in errs[li]) or ("compile error" in errs[li]) or ("failed to parse" in errs[li]) or ("expected" in errs[li] and "R%dK" % k not in outs[li])
                printed = ("R%dK" % k) in outs[li]
                n_exec += 1
                chk.observed(("diag-exec-repl", diagnosed, printed))
                if printed and not errs[li].strip():
                    accepted += 1
                if printed and errs[li].strip() and "Runtime error" not in errs[li]:
                    chk.violation("executed-despite-diagnostics|repl|" + fault, "a REPL line printed its marker although diagnostics were reported for it",
                                  {"line": lines[li], "stdout": outs[li][-200:], "stderr": errs[li][-300:]})
            m_ = re.search(r"KEEP=(\d+)", outs[-1] if outs else "")
            runtime_ok = sum(1 for li in idx if ("R%dK" % idx[li][0]) in outs[li])
            if m_ and int(m_.group(1)) != 1 + runtime_ok:
                chk.violation("executed-despite-diagnostics|repl|assignments", "after the session the counter is %s, but only %d lines printed their marker" % (m_.group(1), runtime_ok),
                              {"lines": lines[:60]})
        chk.count("diagnosed_not_executed_runs", n_exec)
    finally:
        import shutil
        shutil.rmtree(work, ignore_errors=True)
