"""C12 - format and print render the documented format mini-language.

Oracle: a reference renderer for literal text, {{ }} escapes and specifiers
{[index][:[[fill]<|>][width][b|o|x|X]]}. `format` is observed in the probe
(returned string), print/println/eprint/eprintln through captured stream bytes
and the returned length, and end to end through the real binary."""
import os
import re

from . import core
from .core import Case
from .val import canon_dump, lit, show

SPEC_RE = re.compile(r"^(\d*)(?::(?:(.)?([<>]))?(\d*)([boxX]?))?$", re.S)


class FmtError(Exception):
    pass


def display(v):
    if v is None:
        return "null"
    if v is True:
        return "true"
    if v is False:
        return "false"
    if isinstance(v, int):
        return str(v)
    return v


def render(fmt, args):
    out = []
    i = 0
    nxt = 0
    n = len(fmt)
    while i < n:
        c = fmt[i]
        if c == "{":
            if i + 1 < n and fmt[i + 1] == "{":
                out.append("{")
                i += 2
                continue
            j = fmt.index("}", i)
            spec = fmt[i + 1:j]
            m = SPEC_RE.match(spec)
            assert m, spec
            idx, fill, align, width, radix = m.groups()
            if idx == "":
                k = nxt
                nxt += 1
            else:
                k = int(idx)
            if k >= len(args):
                raise FmtError("missing argument")
            v = args[k]
            if radix:
                assert isinstance(v, int) and not isinstance(v, bool) and v >= 0
                s = {"b": "{:b}", "o": "{:o}", "x": "{:x}", "X": "{:X}"}[radix].format(v)
            else:
                s = display(v)
            w = int(width) if width else 0
            pad = (fill if fill else " ") * max(0, w - len(s))
            if not align:
                align = ">" if (isinstance(v, int) and not isinstance(v, bool)) else "<"
            out.append(pad + s if align == ">" else s + pad)
            i = j + 1
            continue
        if c == "}":
            assert i + 1 < n and fmt[i + 1] == "}"
            out.append("}")
            i += 2
            continue
        out.append(c)
        i += 1
    return "".join(out)


FILLS = "0 *-_.#=+~^!@/|acz"   # minus the section-5 exclusions (b o x X { } : < >) and the quote


def gen_case(rng):
    nspec = rng.randint(0, 5)
    nargs = rng.randint(0, 5)
    args = []
    for _ in range(nargs):
        k = rng.randrange(6)
        if k == 0:
            args.append(rng.choice([0, 1, 7, 42, 255, 256, 65535, 69420, 1 << 40, (1 << 63) - 1]))
        elif k == 1:
            args.append(rng.randint(-1000, 1000))
        elif k == 2:
            args.append("".join(rng.choice("abcXYZ 09_-.,{}:<>") for _ in range(rng.randint(0, 8))))
        elif k == 3:
            args.append(rng.choice([True, False]))
        elif k == 4:
            args.append(None)
        else:
            args.append(rng.choice(["", "hello", "Bond", "a b"]))
    if args and rng.random() < 0.10:
        # one long argument with line breaks at odd places: longer than any stream buffer, a long tail without a line break
        tail = rng.choice([1000, 1020, 1024, 1030, 2048, 5000, 9000])
        args[rng.randrange(len(args))] = rng.choice(["head\n", "", "a\nb\n", "\n"]) + "t" * tail + rng.choice(["", "", "", "\n", "\nend"])
    parts = []
    uses_width = False
    for s in range(nspec):
        lit_txt = "".join(rng.choice(["a", "b", " ", ",", "-", "é", "日", "{{", "}}", "=", "%", "x", ":"])
                          for _ in range(rng.randint(0, 4)))
        parts.append(lit_txt)
        idx = ""
        if rng.random() < 0.35:
            idx = str(rng.randint(0, max(0, nargs) + (1 if rng.random() < 0.15 else 0)))
            if rng.random() < 0.04:
                # numerals at the edges of the machine integer types: still only "index exceeds the count"
                idx = rng.choice(["18446744073709551615", "18446744073709551614", "9223372036854775807", "9223372036854775808", "4294967295", "4294967296", "65536", "256"])
        spec = idx
        if rng.random() < 0.6:
            spec += ":"
            if rng.random() < 0.6:
                if rng.random() < 0.5:
                    spec += rng.choice(FILLS)
                spec += rng.choice("<>")
            if rng.random() < 0.7:
                spec += str(rng.choice([0, 1, 2, 3, 5, 8, 10, 12, 20, rng.randint(0, 20)]))
                uses_width = True
            if rng.random() < 0.3:
                spec += rng.choice("boxX")
        parts.append("{" + spec + "}")
    parts.append("".join(rng.choice(["a", " ", "!", "é", "{{", "}}"]) for _ in range(rng.randint(0, 3))))
    fmt = "".join(parts)
    return fmt, args, uses_width


def admissible(fmt, args):
    """keep the case inside what the property specifies (section 5 of DESIGN.md)"""
    i = 0
    nxt = 0
    for m in re.finditer(r"\{\{|\}\}|\{([^{}]*)\}", fmt):
        if m.group(1) is None:
            continue
        sm = SPEC_RE.match(m.group(1))
        if not sm:
            return False
        idx, fill, align, width, radix = sm.groups()
        k = int(idx) if idx else nxt
        if not idx:
            nxt += 1
        if k >= len(args):
            continue   # missing argument: runtime error expected, fine
        v = args[k]
        if radix and not (isinstance(v, int) and not isinstance(v, bool) and v >= 0):
            return False
        if width and isinstance(v, str) and not v.isascii():
            return False
    return True


def run(chk):
    rng = chk.rng
    quick = chk.tier == "quick"
    chk.rule = ("grammar-derived format strings (<= 5 specifiers: index, fill, alignment, width 0..20, radix; literal text with "
                "{{ }} and non-ASCII) x random argument lists (0..5 integers/strings/booleans/null) through format, print, "
                "println, eprint, eprintln; distinct = distinct (builtin, multiset of specifier features, outcome)")
    chk.assumptions = ["arguments are restricted to kinds whose display the documentation fixes (integers, strings, booleans, null)",
                       "radix letters only with non-negative integers; fills exclude b o x X { } : < > (DESIGN.md section 5)"]
    chk.floor = 3000
    chk.rule += '; plus arguments longer than any stream buffer with line breaks at odd places, index numerals at the edges of the machine integers, and the padding rule applied to values whose display is not fixed (floats, bytes, chars, containers) relative to their own "{}" text'
    n = 12000 if quick else 150000
    jobs = []
    while len(jobs) < n:
        fmt, args, uw = gen_case(rng)
        if '"' in fmt or not admissible(fmt, args):
            continue
        try:
            exp = ("ok", render(fmt, args))
        except FmtError:
            exp = ("error", None)
        fn = rng.choice(["format", "format", "print", "println", "eprint", "eprintln"])
        jobs.append((fn, fmt, args, exp))
    work = core.scratch_dir()
    try:
        cases = []
        for i, (fn, fmt, args, exp) in enumerate(jobs):
            call = "%s(%s)" % (fn, ", ".join([lit(fmt)] + [lit(a) for a in args]))
            flags = {"final": 1, "steps": 10000}
            if fn != "format":
                flags["out"] = os.path.join(work, "o%d" % i)
                flags["err"] = os.path.join(work, "e%d" % i)
            cases.append(Case("f%d" % i, call, flags))
        res = core.run_cases(cases)
        for i, (fn, fmt, args, exp) in enumerate(jobs):
            r = res.get("f%d" % i)
            if r is None:
                chk.inconc("missing result")
                continue
            oc = r.get("outcome")
            if oc in ("parse_errors", "compile_error"):
                chk.inconc("generated call rejected")
                continue
            feats = []
            for m in re.finditer(r"\{([^{}]*)\}", fmt.replace("{{", "").replace("}}", "")):
                sm = SPEC_RE.match(m.group(1))
                if sm:
                    idx, fill, align, width, radix = sm.groups()
                    feats.append("%s%s%s%s%s" % ("i" if idx else "", "f" if fill else "", align or "", "w" if width else "", radix or ""))
            shape = (fn, tuple(sorted(set(feats))), exp[0])
            if oc == "panic":
                chk.violation("panic|" + core.panic_site_sig(r["panic"]["loc"], r["panic"]["msg"]),
                              "%s panics: %s" % (cases[i].src, r["panic"]["msg"]), {"src": cases[i].src, "r": r})
                continue
            chk.observed(shape)
            bad = None
            if exp[0] == "error":
                if oc != "rt_error":
                    bad = "expected a runtime error (missing argument), got %s" % oc
                elif not r["rt"]["msg"].startswith(fn + ":"):
                    bad = "runtime error does not name the builtin: %s" % r["rt"]["msg"]
            else:
                text = exp[1]
                if oc != "ok":
                    bad = "expected %r, got %s %s" % (text, oc, r.get("rt"))
                elif fn == "format":
                    got = canon_dump(r.get("final"))
                    if got != ("s", text):
                        bad = "expected %r, got %s" % (text, show(got))
                else:
                    want = text + ("\n" if fn.endswith("ln") else "")
                    stream = "o" if fn in ("print", "println") else "e"
                    other = "e" if stream == "o" else "o"
                    try:
                        data = open(os.path.join(work, "%s%d" % (stream, i)), "rb").read()
                        odata = open(os.path.join(work, "%s%d" % (other, i)), "rb").read()
                    except OSError:
                        chk.inconc("capture file missing")
                        continue
                    got = canon_dump(r.get("final"))
                    if data != want.encode("utf-8"):
                        bad = "stream bytes %r, expected %r" % (data[:80], want.encode("utf-8")[:80])
                    elif odata:
                        bad = "wrote %r to the other stream" % odata[:40]
                    elif got != ("i", len(want.encode("utf-8"))):
                        bad = "returned %s, expected byte length %d" % (show(got), len(want.encode("utf-8")))
            if i % 1499 == 0:
                chk.sample({"call": core.short(cases[i].src, 160), "expected": exp[1] if exp[0] == "ok" else "runtime error",
                            "observed": oc})
            if bad:
                chk.violation("fmt|%s|%s" % ("+".join(sorted(set(feats))), exp[0]),
                              "%s: %s" % (core.short(cases[i].src, 200), bad),
                              {"src": cases[i].src, "expected": exp, "observed": r})
        # values whose display the documentation does not fix (floats, bytes, chars, containers): the padding rule still
        # applies to whatever text "{}" gives for them - fill on the right by default, as for every non-integer
        others = ["1.5", "(-0.25)", "1e21", "100.0", "byte(10)", "byte(255)", "'c'", "[1, 2]", "[]", "map {1: 2}", "null", "true", "\"s\"", "\"\"",
                  "[1.5, byte(1)]", "3.0e-5", "char(65)", "(0.1 + 0.2)"]
        specs = [("{:8}", " ", None, 8), ("{:>8}", " ", ">", 8), ("{:<8}", " ", "<", 8), ("{:*>9}", "*", ">", 9), ("{:_<9}", "_", "<", 9), ("{:12}", " ", None, 12),
                 ("{:1}", " ", None, 1), ("{:0}", " ", None, 0), ("{0:20}", " ", None, 20), ("{:->30}", "-", ">", 30)]
        ocases = []
        for k, v in enumerate(others):
            prog = "let __o = []; let v = %s; push(__o, format(\"{}\", v));" % v + "".join(" push(__o, format(\"%s\", v));" % sp[0] for sp in specs)
            ocases.append(Case("ok%d" % k, prog, {"globals": "__o", "steps": 10000}))
        ores = core.run_cases(ocases)
        for k, v in enumerate(others):
            r = ores.get("ok%d" % k)
            if r is None or r.get("outcome") != "ok":
                if r is not None and r.get("outcome") == "panic":
                    chk.violation("panic|" + core.panic_site_sig(r["panic"]["loc"], r["panic"]["msg"]), "format of %s panics" % v, {"src": ocases[k].src})
                else:
                    chk.inconc("padding family: %s" % ((r or {}).get("outcome")))
                continue
            o = canon_dump(r["globals"]["__o"])[1]
            texts = [x[1] if x[0] == "s" else None for x in o]
            nat = texts[0]
            if nat is None or not nat.isascii():
                chk.inconc("padding family: natural text not usable")
                continue
            for (sp, fill, align, width), got in zip(specs, texts[1:]):
                pad = fill * max(0, width - len(nat))
                want = pad + nat if align == ">" else nat + pad
                chk.observed(("padding", v.split("(")[0][:6], sp))
                if got != want:
                    chk.violation("fmt-other|%s|%s" % ("default" if align is None else align, "pad" if pad else "nopad"),
                                  "format(\"%s\", %s) gives %r; \"{}\" gives %r, so the padded text must be %r (non-integers are padded on the right unless < or > is given)" % (
                                      sp, v, got, nat, want), {"value": v, "spec": sp, "got": got, "natural": nat})
        # rendering deeply nested arrays (many times, also inside other arrays) leaves no trace in how later values render
        dcases = []
        for di, (depth_, reps, wide) in enumerate([(100, 50, 3), (600, 40, 20), (700, 3, 600), (1000, 70, 2), (300, 200, 1)]):
            prog = ("let __o = []; let d = [0]; let i = 0; while i < %d { d = [d]; i = i + 1; }\nlet w = []; let j = 0; while j < %d { push(w, d); j = j + 1; }\n"
                    "push(__o, format(\"{}|{:>8}|{:<12}|\", [1, 2], [3], [[4], [5]]));\nlet k = 0; while k < %d { format(\"{}\", d); format(\"{:5}\", w); k = k + 1; }\n"
                    "push(__o, format(\"{}|{:>8}|{:<12}|\", [1, 2], [3], [[4], [5]])); push(__o, format(\"{}\", [1, [2, [3, [4]]], \"s\"])); push(__o, len(format(\"{}\", d)) > %d);"
                    % (depth_, wide, reps, depth_))
            dcases.append(Case("dp%d" % di, prog, {"globals": "__o", "steps": 3000000}))
        dres = core.run_cases(dcases)
        for di, c_ in enumerate(dcases):
            r = dres.get(c_.id)
            if r is None:
                chk.inconc("missing result")
                continue
            if r.get("outcome") == "died":
                chk.count("deep-array rendering overflows the native stack (nesting beyond what the recursion holds; C08's business)")
                continue
            if r.get("outcome") != "ok":
                if r.get("outcome") == "panic":
                    chk.violation("panic|" + core.panic_site_sig(r["panic"]["loc"], r["panic"]["msg"]), "rendering nested arrays panics", {"src": c_.src})
                else:
                    chk.inconc("deep-array family: %s" % r.get("outcome"))
                continue
            o = [x[1] if x[0] == "s" else x for x in canon_dump(r["globals"]["__o"])[1]]
            chk.observed(("deep-arrays", di))
            want = ["[1, 2]|     [3]|[[4], [5]]  |", "[1, 2]|     [3]|[[4], [5]]  |", "[1, [2, [3, [4]]], \"s\"]", ("bool", True)]
            if o != want:
                chk.violation("fmt-after-deep-arrays|%d" % di, "after rendering deeply nested arrays, ordinary arrays render as %s instead of %s" % (o, want), {"src": c_.src})
        # a print that fails (its stream is a full device) leaves no trace in what later prints write and return
        iso = []
        for tag, failing in (("eprintln", ["eprintln(\"lost {}\", 1);"]), ("eprint-long", ["eprint(\"{}\", \"L\" * 3000);"]),
                             ("eprintln-twice", ["eprintln(\"a\");", "eprint(\"b {} {}\", 1, 2);"]), ("write-stderr", ["write(stderr, \"raw\"); flush(stderr);"])):
            iso.append((tag, [], failing, ["puts(println(\"kept {}\", 2));", "puts(print(\"x{:>4}|\", 7));", "puts(format(\"{}-{}\", 1, 2));", "puts(println(\"{}\", \"end\"));"], []))
        core.isolation_after_errors(chk, "print", iso, stderr_path="/dev/full")
        # end to end through the real binary (both profiles): stdout/stderr bytes
        m = 150 if quick else 1500
        picks = [j for j in jobs if j[0] != "format" and j[3][0] == "ok"][:m]
        for k, (fn, fmt, args, exp) in enumerate(picks):
            call = "%s(%s);" % (fn, ", ".join([lit(fmt)] + [lit(a) for a in args]))
            path = os.path.join(work, "e2e.p2")
            with open(path, "w", encoding="utf-8") as f:
                f.write(call + "\n")
            rr = core.run_binary([path], release=(k % 2 == 1), timeout=20)
            if rr["timeout"]:
                chk.inconc("timeout")
                continue
            want = (exp[1] + ("\n" if fn.endswith("ln") else "")).encode("utf-8")
            got = rr["out"] if fn in ("print", "println") else rr["err"]
            chk.observed(("e2e", fn, k % 2))
            if got != want:
                chk.violation("fmt-e2e|%s" % fn, "binary wrote %r, expected %r for %s" % (got[:80], want[:80], core.short(call, 160)),
                              {"src": call, "stdout": rr["out"].decode("utf-8", "replace"), "stderr": rr["err"].decode("utf-8", "replace")})
    finally:
        import shutil
        shutil.rmtree(work, ignore_errors=True)
