"""C13 - runtime errors report the source line of the failing operation.

Programs with arbitrary preceding code (comments, blank lines, functions,
multi-line string literals, filter statements, LF or CRLF line ends) and
exactly one failing single-line construct; the line in RTError (probe) and in
the '[line N] Runtime error' message of the real binary must be the line on
which that construct is written."""
import os
import re
import shutil
import struct

from . import core
from .core import Case

# (name, construct text) - each fails at run time, all on one line
CONSTRUCTS = [
    ("div-zero", "1 / 0"), ("mod-zero", "7 % 0"), ("byte-div-zero", "b'a' / byte(0)"),
    ("index-range", "[1, 2][5]"), ("index-negative", "[1, 2][0 - 1]"), ("index-kind", "[1, 2][\"a\"]"), ("index-non-container", "5[0]"),
    ("missing-key", "map {1: 2}[3]"), ("invalid-key", "map {1: 2}[map {}]"), ("set-index-range", "zz[9] = 1"),
    ("add-kinds", "1 + \"a\""), ("sub-strings", "\"a\" - \"b\""), ("mul-arrays", "[1] * [2]"), ("neg-string", "-\"a\""),
    ("not-float", "~1.5"), ("lt-kinds", "1 < \"a\""), ("le-kinds", "\"a\" <= 1"), ("gt-bool", "true > false"), ("and-float", "1 & 1.5"),
    ("shift-string", "1 << \"a\""), ("repeat-negative", "\"ab\" * (0 - 2)"), ("map-literal-key", "map {map {}: 1}"),
    ("call-non-function", "5(1)"), ("call-null", "nn(1)"), ("arity-more", "ff(1, 2)"), ("arity-less", "ff()"),
    ("builtin-len", "len(1)"), ("builtin-first", "first(5)"), ("builtin-arity", "len(1, 2)"), ("builtin-push", "push(1, 2)"),
    ("builtin-int", "int([])"), ("builtin-join", "join([1])"), ("builtin-format", "format(\"{} {}\", 1)"), ("builtin-round", "round(1, 2)"),
    ("builtin-rest", "rest(\"s\")"), ("builtin-decode", "decode_utf8([1])"), ("builtin-open-mode", "open(\"/tmp/x\", \"q\")"),
    ("property-on-array", "zz.src"), ("dollar-depth", "$99"),
]
SKIP_IN_PLAIN = set(["dollar-depth"])

FILLER = [
    "# a comment", "// another comment", "", "   ", "let p{n} = {n};", "let q{n} = \"text {n}\";", "puts(\"line\");",
    "fn h{n}(a, b) {{ a + b }}", "fn k{n}(x) {{", "  let y = x * 2;", "  y", "}}", "let r{n} = [1, 2, 3];", "let m{n} = map {{1: 2}};",
    "if p0 == 0 {{ puts(\"zero\"); }} else {{ puts(\"non-zero\"); }};", "let w{n} = match 3 {{ 1 => 1, _ => 2 }};",
    "let i{n} = 0; while i{n} < 2 {{ i{n} = i{n} + 1; }}", "let s{n} = \"a string # with // comment chars\";",
]


def build(rng, cname, ctext, ctx, nl, with_multiline_string, with_filters):
    """-> (text, expected line); build.also = further lines that hold an operation which may legitimately be the failing one"""
    build.also = []
    lines = ["let zz = [1]; let nn = null; fn ff(a) { a }", "let p0 = 0;"]
    n = 0
    in_fn = False
    for _ in range(rng.randint(0, 40)):
        n += 1
        t = rng.choice(FILLER)
        if t.startswith("fn k"):
            lines += [x.format(n=n) for x in ("fn k{n}(x) {{", "  let y = x * 2;", "  y", "}}")]
            continue
        if t.strip() in ("let y = x * 2;", "y", "}}"):
            continue
        lines.append(t.format(n=n))
        if with_multiline_string and rng.random() < 0.2:
            k = rng.randint(1, 3)
            # (a char literal holds exactly one character, so the raw line break must be a bare LF)
            shape = rng.randrange(7 if nl == "\n" else 5)
            if shape == 5:
                # a char literal holding a raw line break
                lines.append("let mc%d = '" % n)
                lines.append("';")
            elif shape == 6:
                lines.append("let mb%d = b'" % n)
                lines.append("';")
            elif shape == 0:
                # banner style: the literal starts and ends with a line break
                lines.append("let ms%d = \"" % n)
                for j in range(k):
                    lines.append("banner %d" % j)
                lines.append("\";")
            elif shape == 1:
                # blank lines inside, line break right before the closing quote
                lines.append("let ms%d = \"first" % n)
                for j in range(k):
                    lines.append("")
                lines.append("\";")
            elif shape == 2:
                # only line breaks
                lines.append("let ms%d = \"" % n)
                for j in range(k - 1):
                    lines.append("")
                lines.append("\";")
            elif shape == 3:
                # escapes next to the line breaks and two literals on the closing line
                lines.append("let ms%d = \"a\\n\\tq" % n)
                lines.append("tail\" + \"x")
                lines.append("y\";")
            else:
                lines.append("let ms%d = \"first" % n)
                for j in range(k - 1):
                    lines.append("middle %d" % j)
                lines.append("last\";")
        if with_filters and rng.random() < 0.15:
            lines.append("@ false { puts(\"never\"); }")
    stmt = "let v = %s;" % ctext if rng.random() < 0.5 else "%s;" % ctext
    if ctx == "top":
        lines.append(stmt)
        exp = len(lines)
    elif ctx == "fn":
        lines.append("fn boom(u) {")
        lines.append("  let before = u;")
        lines.append("  " + stmt)
        exp = len(lines)
        lines.append("  before")
        lines.append("}")
        for _ in range(rng.randint(0, 3)):
            lines.append("# gap")
        lines.append("boom(1);")
    elif ctx == "closure":
        lines.append("let mk = fn() {")
        lines.append("  fn() {")
        lines.append("    " + stmt)
        exp = len(lines)
        lines.append("  }")
        lines.append("};")
        lines.append("let c = mk();")
        lines.append("c();")
    elif ctx == "loop":
        lines.append("let li = 0;")
        lines.append("while li < 3 {")
        lines.append("  li = li + 1;")
        lines.append("  if li == 2 {")
        lines.append("    " + stmt)
        exp = len(lines)
        lines.append("  }")
        lines.append("}")
    elif ctx == "match":
        lines.append("match 2 {")
        lines.append("  1 => { 1 }")
        lines.append("  2 => {")
        lines.append("    " + stmt)
        exp = len(lines)
        lines.append("  }")
        lines.append("};")
    elif ctx == "operand":
        lines.append("let big = [")
        lines.append("  1,")
        lines.append("  " + ctext + ",")
        exp = len(lines)
        lines.append("  3];")
    elif ctx == "filter":
        lines.append("@ NP == 1 {")
        lines.append("  let fl = 1;")
        lines.append("  " + stmt)
        exp = len(lines)
        lines.append("}")
    elif ctx == "twin":
        # the failing operation stands in an anonymous function literal that has a byte-identical twin on earlier lines
        body = rng.choice(["a / b", "a % b", "a[b]", "a(b)", "-a + b", "a + b", "a < b", "a.src", "len(a, b)", "a << b"])
        args = {"a / b": "(1, 0)", "a % b": "(1, 0)", "a[b]": "([1], 5)", "a(b)": "(1, 2)", "-a + b": "(\"s\", 1)", "a + b": "(1, \"s\")", "a < b": "([1], 2)",
                "a.src": "(5, 0)", "len(a, b)": "(1, 2)", "a << b": "(\"s\", 1)"}[body]
        lines.append("let twins = [fn(a, b) {")
        lines.append("  " + body)
        lines.append("},")
        for _ in range(rng.randint(0, 2)):
            lines.append("# between")
        lines.append("fn(a, b) {")
        lines.append("  " + body)
        exp = len(lines)
        lines.append("}, fn(a, b) {")
        lines.append("  " + body)
        lines.append("}];")
        lines.append("twins[1]" + args + ";")
    elif ctx == "wrapped-arm":
        # a range pattern alone on its line, the arrow and the arm on later lines; the comparison of the pattern fails
        lines.append("let wv = match \"text\" {")
        lines.append("  100 => 1,")
        lines.append("  1..5")
        exp = len(lines)
        lines.append("    => 2,")
        lines.append("  7 |")
        lines.append("  20..=30")
        lines.append("    => 3,")
        lines.append("  _ => 4")
        lines.append("};")
    elif ctx == "recursion":
        # runaway recursion: the failing operation is the innermost call, written on its own line inside the function
        shape = rng.randrange(5)
        head, call, tail = [("fn rz() {", "rz();", "}"), ("fn rz() {", "rz()", "}"), ("fn rz(n) {", "rz(n + 1);", "}"),
                            ("fn rz(n) {", "1 + rz(n + 1)", "}"), ("let rz = fn() {", "rz();", "};")][shape]
        nloc = 0
        if shape in (2, 3) and rng.random() < 0.6:
            # several locals: the frame's slots, not the frame count or a pushed temporary, may be what no longer fits
            nloc = rng.randint(1, 9)
            if shape == 3 and rng.random() < 0.5:
                call = "rz(n + 1) + w0"
        lines.append(head)
        also = []       # with locals the stack may as well run out in one of their initialisers: any operation of the body
        for j in range(nloc):
            lines.append("  let w%d = n + %d;" % (j, j))
            also.append(len(lines))
        for _ in range(rng.randint(0, 3)):
            lines.append("  # inside")
        if shape in (2, 3) and rng.random() < 0.5:
            lines.append("  let keep = n;")
            also.append(len(lines))
        lines.append("  " + call)
        exp = len(lines)
        build.also = also
        lines.append(tail)
        for _ in range(rng.randint(0, 3)):
            lines.append("# gap")
        lines.append("rz(0);" if shape in (2, 3) else "rz();")
    else:
        raise ValueError(ctx)
    for _ in range(rng.randint(0, 3)):
        lines.append("puts(\"after\");")
    return nl.join(lines) + nl, exp


def one_packet_pcap():
    gh = struct.pack("<IHHiIII", 0xA1B2C3D4, 2, 4, 0, 0, 65535, 1)
    data = bytes(range(60))
    return gh + struct.pack("<IIII", 1, 2, len(data), len(data)) + data


def run(chk):
    rng = chk.rng
    quick = chk.tier == "quick"
    chk.rule = ("%d failing single-line constructs x contexts {top level, function body called from another line, closure, loop+if, "
                "match arm, multi-line literal, filter action} x random preceding code (0-40 lines of comments, blanks, functions, "
                "multi-line string literals, filter statements) x {LF, CRLF}; distinct = distinct (construct, context, line-end style, "
                "multi-line strings present)" % len(CONSTRUCTS))
    chk.assumptions = ["lines are counted as an editor counts them: one per LF, CRLF is one line end",
                       "the failing construct is written on a single line (the property's proviso)"]
    chk.floor = 1500
    chk.rule += '; plus multi-line literals ending in a line break / holding blank lines / escapes, char and byte literals holding a line break, runaway recursion (with 0-9 locals) as the failing construct'
    reps = 2 if quick else 40
    jobs = []
    for cname, ctext in CONSTRUCTS:
        for ctx in ("top", "fn", "closure", "loop", "match", "operand"):
            if cname in SKIP_IN_PLAIN:
                continue
            for nl in ("\n", "\r\n"):
                for ms in (False, True):
                    for _ in range(reps):
                        text, exp = build(rng, cname, ctext, ctx, nl, ms, with_filters=False)
                        jobs.append((cname, ctx, nl, ms, text, exp, ctext))
    for nl in ("\n", "\r\n"):
        for ms in (False, True):
            for _ in range(reps * 4):
                text, exp = build(rng, "stack-overflow", "rz()", "recursion", nl, ms, with_filters=False)
                jobs.append(("stack-overflow", "recursion", nl, ms, text, (exp, tuple(build.also)), "rz()"))
    for nl in ("\n", "\r\n"):
        for ms in (False, True):
            for _ in range(reps * 3):
                text, exp = build(rng, "twin-literal", "fn(a, b) { .. }", "twin", nl, ms, with_filters=False)
                jobs.append(("twin-literal", "twin", nl, ms, text, exp, "fn(a, b) { .. }"))
            text, exp = build(rng, "range-pattern", "1..5 =>", "wrapped-arm", nl, ms, with_filters=False)
            jobs.append(("range-pattern", "wrapped-arm", nl, ms, text, exp, "1..5 (wrapped arm)"))
    cases = [Case("l%d" % i, j[4], {"steps": 100000}) for i, j in enumerate(jobs)]
    res = core.run_cases(cases)
    for i, (cname, ctx, nl, ms, text, exp, ctext) in enumerate(jobs):
        r = res.get("l%d" % i)
        if r is None:
            chk.inconc("missing result")
            continue
        oc = r.get("outcome")
        if oc == "panic":
            continue
        if oc != "rt_error":
            chk.inconc("construct %s did not fail at run time (%s)" % (cname, oc))
            if sum(chk.inconclusive.values()) <= 3:
                chk.sample({"did_not_fail": text[-300:], "outcome": oc, "diag": r.get("diag")})
            continue
        chk.observed((cname, ctx, "crlf" if nl == "\r\n" else "lf", ms))
        if i % 211 == 0:
            chk.sample({"construct": ctext, "context": ctx, "line_end": repr(nl), "expected_line": exp[0] if isinstance(exp, tuple) else exp, "reported_line": r["rt"]["line"],
                        "message": r["rt"]["msg"]})
        allowed = ()
        if isinstance(exp, tuple):
            exp, allowed = exp
        if r["rt"]["line"] != exp and r["rt"]["line"] not in allowed:
            why = "builtin" if cname.startswith("builtin") else "op"
            chk.violation("line|%s|%s|%s%s" % (why, ctx, "crlf" if nl == "\r\n" else "lf", "|multiline-string" if ms else ""),
                          "%s in context %s (%s%s): reported line %d, written on line %d  [%s]" % (
                              ctext, ctx, "CRLF" if nl == "\r\n" else "LF", ", multi-line strings before" if ms else "",
                              r["rt"]["line"], exp, r["rt"]["msg"]),
                          {"src": text, "expected_line": exp, "reported": r["rt"]})
    # filter actions and top-level constructs through the real binary: the printed '[line N]'
    work = core.scratch_dir()
    try:
        pcap = os.path.join(work, "one.pcap")
        with open(pcap, "wb") as f:
            f.write(one_packet_pcap())
        picks = CONSTRUCTS if not quick else CONSTRUCTS[::3] + [CONSTRUCTS[-1]]
        for k, (cname, ctext) in enumerate(picks):
            for ctx in ("filter", "top"):
                if ctx == "top" and cname in SKIP_IN_PLAIN:
                    continue
                for nl in ("\n", "\r\n"):
                    text, exp = build(rng, cname, ctext, ctx, nl, k % 2 == 0, with_filters=(ctx == "filter"))
                    path = os.path.join(work, "s.p2")
                    with open(path, "w", encoding="utf-8", newline="") as f:
                        f.write(text)
                    with open(pcap, "rb") as fi:
                        rr = core.run_binary(["-s", path] if ctx == "filter" else [path], stdin_file=fi, release=(k % 2 == 1), timeout=20)
                    if rr["timeout"] or core.crashed(rr):
                        chk.inconc("binary run timed out or crashed")
                        continue
                    err = rr["err"].decode("utf-8", "replace")
                    m = re.search(r"\[line (\d+)\] Runtime error", err)
                    if not m:
                        chk.inconc("no runtime error printed for %s in %s" % (cname, ctx))
                        continue
                    chk.observed((cname, ctx + "/binary", "crlf" if nl == "\r\n" else "lf"))
                    if int(m.group(1)) != exp:
                        why = "builtin" if cname.startswith("builtin") else "op"
                        chk.violation("line|%s|%s/binary|%s" % (why, ctx, "crlf" if nl == "\r\n" else "lf"),
                                      "%s in %s: the binary reports line %s, written on line %d" % (ctext, ctx, m.group(1), exp),
                                      {"src": text, "stderr": err[-300:]})
    finally:
        shutil.rmtree(work, ignore_errors=True)
