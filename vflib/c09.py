"""C09 - operators implement a consistent numeric and typing model.

One operator application per execution of the real compiler+VM (probe); the
observed value / runtime error / panic is compared with the Python model of
the property statement (opmodel.py)."""
import math

from . import core
from .core import Case
from .opmodel import ALL_BINOPS, Alt, RuntimeErr, Unspecified, binop, unop
from .val import (Arr, Builtin, Byte, Char, Closure, I64_MAX, I64_MIN, Map, canon, canon_dump, from_bits, kind,
                  lit, show)

INTS = [0, 1, -1, 2, 3, -7, 10, 63, 64, 65, -64, 255, 256, 1 << 32, (1 << 53), (1 << 53) + 1,
        I64_MAX, I64_MAX - 1, I64_MIN, I64_MIN + 1]
FLOATS = [0.0, -0.0, 1.0, -1.5, 2.5, 3.0, math.inf, -math.inf, math.nan, 1e308, 5e-324, float(1 << 53), 63.0, 64.0,
          9.223372036854775807e18]
BYTES = [Byte(0), Byte(1), Byte(2), Byte(16), Byte(127), Byte(128), Byte(255)]
STRS = ["", "a", "ab", "b", "A", "é", "日本"]
CHARS = [Char("a"), Char("b"), Char("A"), Char("é"), Char("0")]
OTHERS = [True, False, None, Arr([]), Arr([1]), Arr([1, 2]), Arr([Arr([1])]), Arr(["a"]), Map([]), Map([(1, 2)]),
          Closure(), Builtin("len")]
VALUES = INTS + FLOATS + BYTES + STRS + CHARS + OTHERS


def outcome_class(r):
    oc = r.get("outcome")
    if oc == "ok":
        return "value"
    if oc == "rt_error":
        return "error"
    return oc


def expect(op, a, b=None, unary=False):
    """-> ('value', canon) | ('error',) | ('alt', [canon...], allow_error) | ('unspec', reason)"""
    try:
        v = unop(op, a) if unary else binop(op, a, b)
    except RuntimeErr:
        return ("error",)
    except Unspecified as u:
        return ("unspec", str(u))
    if isinstance(v, Alt):
        return ("alt", [canon(x) for x in v.values], v.allow_error)
    return ("value", canon(v))


def judge(exp, r):
    """-> None if the observation is allowed, else a short description"""
    oc = outcome_class(r)
    if oc not in ("value", "error"):
        return "ended with %s" % oc
    got = canon_dump(r.get("final")) if oc == "value" else None
    if exp[0] == "error":
        return None if oc == "error" else "expected a runtime error, got %s" % show(got)
    if exp[0] == "value":
        if oc == "error":
            return "expected %s, got runtime error '%s'" % (show(exp[1]), r.get("rt", {}).get("msg"))
        return None if got == exp[1] else "expected %s, got %s" % (show(exp[1]), show(got))
    if exp[0] == "alt":
        if oc == "error":
            return None if exp[2] else "runtime error not allowed here"
        return None if got in exp[1] else "expected one of %s, got %s" % ([show(x) for x in exp[1]], show(got))
    return None


def run(chk):
    rng = chk.rng
    quick = chk.tier == "quick"
    chk.rule = ("every binary operator x ordered pair of boundary operand values over 10 kinds, every unary operator x "
                "value, plus random operand pairs; one operator application per VM execution; distinct = distinct "
                "(operator, left kind, right kind, expected class, observed class)")
    chk.assumptions = ["corners the statement leaves open are not judged: byte vs integer/float ordering and ==, "
                       "bitwise/shift with a byte operand, integer*string, float division/modulo by zero may be IEEE "
                       "or a runtime error (DESIGN.md section 5)"]
    chk.floor = 20000
    chk.rule += ("; plus many applications in one execution (batches through an identity function, repetition of fresh and of temporary "
                 "strings) and applications continued inside one long expression by 1-70 value-preserving operators; every operator with the same object on both sides (a variable, an element, an argument used twice)")
    items = []  # (src, exp, tag)
    for op in ALL_BINOPS:
        for a in VALUES:
            for b in VALUES:
                if quick and kind(a) not in ("int", "float", "byte") and kind(b) not in ("int", "float", "byte") \
                        and rng.random() < 0.5 and kind(a) != kind(b):
                    continue
                items.append(("%s %s %s" % (lit(a), op, lit(b)), expect(op, a, b), (op, kind(a), kind(b))))
    for op in ("-", "!", "~"):
        for a in VALUES:
            items.append(("%s%s" % (op, lit(a)), expect(op, a, unary=True), ("u" + op, kind(a), "")))
    # random numeric pairs
    n_rand = 20000 if quick else 300000
    for _ in range(n_rand):
        op = rng.choice(ALL_BINOPS)

        def rv():
            k = rng.randrange(8)
            if k == 0:
                return rng.choice(INTS)
            if k == 1:
                return rng.randint(I64_MIN, I64_MAX)
            if k == 2:
                return rng.randint(-100, 100)
            if k == 3:
                return rng.choice([I64_MAX, I64_MIN, 0]) + rng.randint(-3, 3) if rng.random() < .5 else (1 << rng.randint(0, 62)) * rng.choice([1, -1])
            if k == 4:
                x = from_bits(rng.getrandbits(64))
                return x
            if k == 5:
                return float(rng.randint(-1000, 1000)) / rng.choice([1, 2, 4, 10])
            if k == 6:
                return Byte(rng.randrange(256))
            return rng.choice(FLOATS)
        a, b = rv(), rv()
        if isinstance(a, int) and not isinstance(a, bool):
            a = max(I64_MIN, min(I64_MAX, a))
        if isinstance(b, int) and not isinstance(b, bool):
            b = max(I64_MIN, min(I64_MAX, b))
        items.append(("%s %s %s" % (lit(a), op, lit(b)), expect(op, a, b), (op, kind(a), kind(b))))
    # random string/char pairs for ordering and concatenation, repetition counts
    alphabet = "abAB09 zé日~"
    for _ in range(3000 if quick else 40000):
        op = rng.choice(("<", ">", "<=", ">=", "==", "!=", "+"))
        if rng.random() < 0.5:
            a = "".join(rng.choice(alphabet) for _ in range(rng.randint(0, 4)))
            b = "".join(rng.choice(alphabet) for _ in range(rng.randint(0, 4)))
        else:
            a, b = Char(rng.choice(alphabet)), Char(rng.choice(alphabet))
        items.append(("%s %s %s" % (lit(a), op, lit(b)), expect(op, a, b), (op, kind(a), kind(b))))
    for s in STRS:
        for n in (0, 1, 2, 3, 17, -1, -5, I64_MIN, 1000):
            items.append(("%s * %s" % (lit(s), lit(n)), expect("*", s, n), ("*", "string", "int")))

    # the same object on both sides (a variable used twice): the result is that of two equal operands, NaN included
    for op in ALL_BINOPS:
        for a in VALUES:
            items.append(("let x = %s; x %s x" % (lit(a), op), expect(op, a, a), (op, kind(a), "same-object")))
            items.append(("let a = [%s]; a[0] %s a[0]" % (lit(a), op), expect(op, a, a), (op, kind(a), "same-element")))
            items.append(("fn f(x) { x %s x } f(%s)" % (op, lit(a)), expect(op, a, a), (op, kind(a), "same-argument")))
    # allocation requests beyond the machine are excluded by C08 and not generated
    items = [it for it in items if not (it[1][0] == "unspec" and ("huge" in it[1][1] or "integer * string" in it[1][1]))]
    cases = [Case("e%d" % i, src, {"final": 1, "steps": 10000}) for i, (src, _, _) in enumerate(items)]
    res = core.run_cases(cases)
    n_unspec = 0
    for i, (src, exp, tag) in enumerate(items):
        r = res.get("e%d" % i)
        if r is None:
            chk.inconc("missing result")
            continue
        if r.get("outcome") in ("parse_errors", "compile_error"):
            chk.inconc("generator produced a rejected expression")
            if chk.inconclusive.get("generator produced a rejected expression", 0) < 3:
                chk.sample({"rejected": src, "diag": r.get("diag")})
            continue
        if exp[0] == "unspec":
            n_unspec += 1
            # still: it must not crash (that half is C08's; only counted here)
            continue
        oc = outcome_class(r)
        bad = judge(exp, r)
        chk.observed(tag + (exp[0], oc))
        if i % 4001 == 0:
            chk.sample({"expr": src, "expected": exp[0] if exp[0] != "value" else show(exp[1]),
                        "observed": oc if oc != "value" else show(canon_dump(r.get("final")))})
        if bad:
            if oc == "panic":
                sig = "panic|" + core.panic_site_sig(r["panic"]["loc"], r["panic"]["msg"])
                what = "operator application panics: %s  (%s at %s)" % (src, r["panic"]["msg"], r["panic"]["loc"])
            else:
                sig = "op=%s|kinds=%s,%s|expected=%s|got=%s" % (tag[0], tag[1], tag[2], exp[0], oc)
                what = "%s: %s" % (src, bad)
            chk.violation(sig, what, {"expr": src, "expected": repr(exp), "observed": r})
    chk.count("unspecified_corners_skipped", n_unspec)
    # ---- many applications in one execution, operands built at run time (a result must not depend on what was computed
    # before it): value-expected items replayed in batches through an identity function, string repetition of fresh strings
    vitems = [(src, exp) for (src, exp, tag) in items if exp[0] == "value" and len(src) < 200 and not src.startswith(("let ", "fn "))]
    seqs = []
    for t in range(60 if quick else 1500):
        batch = [rng.choice(vitems) for _ in range(rng.randint(20, 60))]
        # the same expression again later in the batch, and right after a different one with the same operator
        batch += [batch[0], batch[1], batch[0]]
        prog = "fn id(x) { x }\nlet __o = [];\n" + "\n".join("push(__o, id(%s));" % src for src, _ in batch)
        seqs.append((prog, [exp[1] for _, exp in batch], "batch"))
    for t in range(20 if quick else 400):
        n = rng.choice([1, 2, 7, 33, 40, 64, 100])
        k = rng.randint(20, 60)
        width = rng.choice([1, 2, 3, 10])
        prog = ("let __o = []; let i = 0;\nwhile i < %d { let s = str(i %% %d) + %s; push(__o, s * %d); let t = %s + str(i); push(__o, t * %d); i = i + 1; }"
                % (k, rng.choice([3, 7, 1000]), lit("ab"[:width % 3] + "q" * (width // 3)), n, lit("z" * width), n))
        expv = []
        mod = int(prog.split("i % ")[1].split(")")[0])
        suffix = "ab"[:width % 3] + "q" * (width // 3)
        for i in range(k):
            expv.append((str(i % mod) + suffix) * n)
            expv.append(("z" * width + str(i)) * n)
        seqs.append((prog, expv, "repeat-fresh-strings"))
    for t in range(20 if quick else 400):
        # the operand is a temporary that is gone right after the operation, so the next operand is likely to sit where it sat
        n = rng.choice([1, 2, 7, 33, 40, 64, 100])
        k = rng.randint(20, 60)
        sfx = rng.choice(["q", "ab", "xyz0123456", ""])
        form = rng.randrange(3)
        if form == 0:
            prog = "let __o = []; let i = 0;\nwhile i < %d { push(__o, (str(i) + %s) * %d); i = i + 1; }" % (k, lit(sfx), n)
        elif form == 1:
            prog = "fn rep(x, n) { x * n }\nlet __o = []; let i = 0;\nwhile i < %d { push(__o, rep(str(i) + %s, %d)); i = i + 1; }" % (k, lit(sfx), n)
        else:
            prog = "let __o = []; let i = 0;\nwhile i < %d { let r = (str(i) + %s) * %d; push(__o, r); i = i + 1; }" % (k, lit(sfx), n)
        seqs.append((prog, [(str(i) + sfx) * n for i in range(k)], "repeat-temporaries"))
    # the application is the innermost node of one long expression: its result goes through 33-70 further operators
    # that leave a value of its kind as it is (== true, + 0, - 0.0, + "")
    def tail_for(tag, exp):
        op, ka, kb = tag
        res = exp[1][0]
        if res == "bool" and op in ("<", "<=", ">", ">=", "==", "!="):
            return " == true"
        if res == "i" and ka == "int" and kb == "int":
            return " + 0"
        if res == "f" and op in ("+", "-", "*", "/", "%"):
            return " - 0.0"
        if res == "s" and ka == "string" and op in ("+", "*"):
            return ' + ""'
        return None
    chainable = [(src, exp, tail_for(tag, exp)) for (src, exp, tag) in items if exp[0] == "value" and len(src) < 120 and not tag[0].startswith("u") and not src.startswith(("let ", "fn "))]
    chainable = [x for x in chainable if x[2]]
    by_tail = {}
    for x in chainable:
        by_tail.setdefault((x[2], x[0].split(" ")[1] if x[0].count(" ") >= 2 else "?"), []).append(x)
    groups = sorted(by_tail)
    for t in range(40 if quick else 800):
        batch = []
        for _ in range(rng.randint(12, 30)):
            src, exp, tail = rng.choice(by_tail[rng.choice(groups)])
            batch.append((src + tail * rng.choice([1, 5, 31, 32, 33, 34, 40, 64, 70]), exp[1]))
        prog = "let __o = [];\n" + "\n".join("push(__o, %s);" % src for src, _ in batch)
        seqs.append((prog, [v for _, v in batch], "batch-continued"))
    scases = [Case("s%d" % i, prog, {"globals": "__o", "steps": 400000}) for i, (prog, _, _) in enumerate(seqs)]
    sres = core.run_cases(scases)
    from .val import canon
    for i, (prog, expv, fam) in enumerate(seqs):
        r = sres.get("s%d" % i)
        if r is None:
            chk.inconc("missing result")
            continue
        if r.get("outcome") == "panic":
            chk.violation("panic|" + core.panic_site_sig(r["panic"]["loc"], r["panic"]["msg"]), "operator sequence panics: %s" % r["panic"]["msg"], {"src": prog[:2000]})
            continue
        if r.get("outcome") != "ok":
            chk.inconc("operator sequence: %s" % r.get("outcome"))
            continue
        got = list(canon_dump(r["globals"]["__o"])[1])
        want = list(expv) if fam.startswith("batch") else [canon(v) for v in expv]
        chk.observed(("sequence", fam, len(want) // 20))
        chk.count("operator_sequences_" + fam.replace("-", "_"))
        if got != want:
            k_ = next((j for j in range(min(len(got), len(want))) if got[j] != want[j]), min(len(got), len(want)))
            chk.violation("sequence|%s" % fam, "in one execution of %d operator applications, application #%d gives %s, on its own it gives %s" % (
                len(want), k_, core.short(show(got[k_]), 80) if k_ < len(got) else "<nothing>", core.short(show(want[k_]), 80) if k_ < len(want) else "<nothing>"),
                {"src": prog[:3000], "index": k_})
