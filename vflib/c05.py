"""C05 - conditionals, match and loops follow their documented control flow.

(1) exhaustive tables: scrutinee x pattern-list over small domains (literal,
    alternatives, a..b, a..=b incl. empty and inverted ranges, default,
    cross-kind scrutinees, overlapping arms, scrutinee evaluated once);
(2) if / else-if / else chains over the truthiness representatives with
    value and value-less branches;
(3) generated nestings of conditionals, matches and labelled loops with
    break/continue (statement position) compared with the evaluator."""
import itertools

from . import core, gen
from .c02 import compare, node_kinds
from .core import Case
from .opmodel import falsey
from .val import Byte, Char, canon, canon_dump, kind, lit, show

INT_S = [0, 1, 2, 3, 4, 5, 6]
CHAR_S = [Char(c) for c in "abcde"]
BYTE_S = [Byte(ord(c)) for c in "abcde"]
STR_S = ["", "a", "ab", "b", "c"]


def pat_text(p):
    return gen.Renderer().pattern(p)


def arms_for(kindname):
    """pattern lists to test against every scrutinee of the domain"""
    out = []
    if kindname == "int":
        dom, mk = INT_S, (lambda v: v)
    elif kindname == "char":
        dom, mk = CHAR_S, (lambda v: v)
    elif kindname == "byte":
        dom, mk = BYTE_S, (lambda v: v)
    else:
        dom, mk = STR_S, (lambda v: v)
    for v in dom:
        out.append([("plit", v)])
    out.append([("plit", dom[1]), ("plit", dom[3])])
    out.append([("plit", dom[0]), ("plit", dom[0])])
    if kindname != "str":
        for a, b in itertools.product(range(len(dom)), repeat=2):
            for incl in (False, True):
                out.append([("prange", dom[a], dom[b], incl)])
        out.append([("prange", dom[1], dom[2], False), ("plit", dom[4])])
        out.append([("plit", dom[0]), ("prange", dom[3], dom[4], True)])
    else:
        out.append([("prange", "a", "b", False)])
        out.append([("prange", "a", "b", True)])
        out.append([("prange", "", "c", False)])
        out.append([("prange", "b", "a", True)])
    return out


def match_model(s, arms, default):
    """index of the arm taken (1-based), 0 = default arm, None = no arm -> null"""
    from .opmodel import Unspecified
    ev = gen.Evaluator()
    try:
        for i, pats in enumerate(arms):
            for p in pats:
                if ev.pat_match(p, s, None):
                    return i + 1, ev.tags
    except Unspecified:
        return "unspec", ev.tags
    return (0 if default else None), ev.tags


def run(chk):
    rng = chk.rng
    quick = chk.tier == "quick"
    chk.rule = ("exhaustive scrutinee x pattern tables over small integer/char/byte/string domains (every literal, alternatives, "
                "every range a..b and a..=b incl. empty/inverted, with/without default, overlapping arms, cross-kind scrutinees), "
                "if/else-if/else chains over truthiness representatives, and generated nestings of if/match/labelled loops with "
                "break/continue; distinct = distinct (table, pattern shape, scrutinee kind, arm taken) / AST node-kind sets")
    chk.assumptions = ["break/continue appear in statement position only (operand position is C07's workload)",
                       "negative integers cannot be written as patterns in this grammar, so pattern integers are >= 0"]
    chk.floor = 3000
    chk.rule += '; plus value-less branches ended in every value-less way (nested blocks, loops, lets) with the if / match between other operands and in long loops'
    PRE = "fn t(k) { push(__t, k); k }\n"
    jobs = []   # (tag, src, expected canon list for __o, expected len of __t or None, tags)
    domains = {"int": INT_S + [-1, 7], "char": CHAR_S + [Char("f")], "byte": BYTE_S + [Byte(102)], "str": STR_S + ["ba"]}
    others = {"int": [Char("a"), "a", True, None, Byte(97), 2.0, 2.5], "char": [97, "a", Byte(97), None],
              "byte": [97, Char("a"), "a", None], "str": [Char("a"), 1, None, True]}
    for kn in ("int", "char", "byte", "str"):
        arms_list = arms_for(kn)
        for pats in arms_list:
            for s in domains[kn] + others[kn]:
                for default in (True, False):
                    arm, tags = match_model(s, [pats], default)
                    if arm == "unspec":
                        continue
                    src = "push(__o, match t(%s) { %s => 1%s });" % (lit(s), " | ".join(pat_text(p) for p in pats), ", _ => 0" if default else "")
                    exp = ("i", 1) if arm == 1 else (("i", 0) if arm == 0 else ("null",))
                    jobs.append((("table", kn, pats[0][0] + str(len(pats)), kind(s), arm), src, [exp], 1, tags))
        # first match wins with overlapping arms
        for _ in range(60 if quick else 600):
            arms = [rng.choice(arms_list) for _ in range(rng.randint(2, 4))]
            s = rng.choice(domains[kn])
            default = rng.random() < 0.5
            arm, tags = match_model(s, arms, default)
            if arm == "unspec":
                continue
            body = ", ".join("%s => %d" % (" | ".join(pat_text(p) for p in pats), 10 + i) for i, pats in enumerate(arms))
            src = "push(__o, match t(%s) { %s%s });" % (lit(s), body, ", _ => 0" if default else "")
            exp = ("i", 9 + arm) if arm else (("i", 0) if arm == 0 else ("null",))
            jobs.append((("overlap", kn, len(arms), arm), src, [exp], 1, tags))
    for s in (True, False, 1, None):
        for pats in ([("plit", True)], [("plit", False)], [("plit", True), ("plit", False)]):
            arm, tags = match_model(s, [pats], False)
            src = "push(__o, match t(%s) { %s => 1 });" % (lit(s), " | ".join(pat_text(p) for p in pats))
            jobs.append((("table", "bool", len(pats), kind(s), arm), src, [("i", 1) if arm else ("null",)], 1, tags))
    # arm values: block value / value-less block / nested
    for s in (1, 2, 3):
        src = ("push(__o, match %d { 1 => { let q = 5; q + 1 }, 2 => { let q = 5; }, 3 => { }, _ => 9 });" % s)
        jobs.append((("armvalue", s), src, [[("i", 6)], [("null",)], [("null",)]][s - 1], None, set()))
    # compile-time: arms whose patterns differ in type are rejected
    mixed = ["match 1 { 1 => 1, \"a\" => 2 }", "match 1 { 1 | 'a' => 1 }", "match 1 { 1..3 => 1, 'a'..'c' => 2 }",
             "match 1 { 1..3 | \"a\" => 1 }", "match 'a' { 'a' => 1, b'a' => 2 }", "match 1 { true => 1, 1 => 2 }",
             "match \"a\" { \"a\" => 1, _ => 2, 3 => 3 }", "match 1 { 1 => 1, _ => 2, _ => 3 }", "match 1 { 1 | _ => 1 }"]
    for m in mixed:
        jobs.append((("mixed", m[:24]), "push(__o, %s);" % m, "reject", None, set()))
    same = ["match 1 { 1 => 1, 2 | 3 => 2, 4..6 => 3, _ => 4 }", "match 'a' { 'a'..'c' => 1, 'x' => 2 }", "match b'a' { b'a' => 1, b'b'..=b'c' => 2 }",
            "match \"a\" { \"a\" | \"b\" => 1, \"c\"..\"e\" => 2 }"]
    for m in same:
        jobs.append((("sametype", m[:24]), "let z = %s;" % m, "accept", None, set()))
    # arms with many integer alternatives: repeated values, gaps, any order; every scrutinee in and around the span
    for alts in ([1, 2, 2, 4], [1, 2, 3, 4], [4, 3, 2, 1], [1, 1, 1, 4], [0, 2, 4, 6, 8], [5, 5, 6, 8, 8], [10, 11, 11, 13, 13, 15], [1, 2, 4, 4], [7, 7, 7, 7], [3, 1, 1, 5, 2]):
        for sv in range(max(0, min(alts) - 1), max(alts) + 2):       # (negative numbers cannot be patterns)
            src = "push(__o, match t(%d) { %s => \"listed\", %d => \"self\", _ => \"other\" });" % (sv, " | ".join(str(x) for x in alts), sv)
            jobs.append((("alts", len(alts), len(set(alts)), sv in alts), src, [("s", "listed" if sv in alts else "self")], 1, set()))
    for alts in (["a", "b", "b", "d"], ["x", "x", "y"]):
        for sv in ("a", "b", "c", "d", "x", "y", "z"):
            src = "push(__o, match t(%s) { %s => 1, _ => 2 });" % ("\"%s\"" % sv, " | ".join("\"%s\"" % x for x in alts))
            jobs.append((("alts-str", len(alts), len(set(alts)), sv in alts), src, [("i", 1 if sv in alts else 2)], 1, set()))
    # no default arm: a value that matches no arm yields null, whatever the patterns cover
    for sv, want in (("5", "null"), ("true", "t"), ("false", "f"), ("null", "null"), ("\"s\"", "null"), ("0", "null"), ("[1]", "null")):
        src = "push(__o, match t(%s) { true => \"t\", false => \"f\" });" % sv
        jobs.append((("bool-arms-no-default", sv), src, [("null",) if want == "null" else ("s", want)], 1, set()))
    # if / else-if / else over truthiness representatives
    from .c06 import REPS
    for (ts, tv), (us, uv) in itertools.product(REPS[:-2], REPS[:-2:3]):
        f1, f2 = falsey(tv), falsey(uv)
        src = "push(__o, if %s { t(1); 10 } else if %s { t(2); 20 } else { t(3); 30 });" % (ts, us)
        exp = 10 if not f1 else (20 if not f2 else 30)
        jobs.append((("ifchain", kind(tv), kind(uv), exp), src, [("i", exp)], 1, set()))
    for ts, tv in REPS[:-2]:
        f = falsey(tv)
        jobs.append((("if-noelse", kind(tv), f), "push(__o, if %s { 1 });" % ts, [("null",) if f else ("i", 1)], None, set()))
        jobs.append((("if-novalue", kind(tv), f), "push(__o, if %s { let q = 1; } else { 2 });" % ts, [("i", 2) if f else ("null",)], None, set()))
        jobs.append((("while", kind(tv), f), "let n = 0; while %s { n = n + 1; if n == 3 { break; } } push(__o, n);" % ts,
                     [("i", 0 if f else 3)], None, set()))
    # branches without a value, ended in every value-less way, with the if / match sitting between other operands: the
    # neighbours keep their values and the branch yields null
    ENDINGS = ["let q = 7;", "{ 7; }", "{ }", "{ { 7; } }", "while false { 7; }", "{ let q = 7; }", "7; { 8; }", "{ 7; } { 8; }", "loop { break; }"]
    for e_i, ending in enumerate(ENDINGS):
        for pos, tmpl in (("then", "if true { %s } else { 5 }"), ("else", "if false { 5 } else { %s }"), ("else-if", "if false { 5 } else if true { %s } else { 6 }"),
                          ("else-after-stmt", "if false { 5 } else { q0 = q0 + 1; %s }"), ("match-arm", "match 1 { 1 => { %s }, _ => { 5 } }"),
                          ("match-default", "match 2 { 1 => { 5 }, _ => { %s } }")):
            ifx = tmpl % ending
            jobs.append((("novalue-ending", pos, e_i, "array"), "let q0 = 0; push(__o, [1, %s, 3]);" % ifx, [("a", (("i", 1), ("null",), ("i", 3)))], None, set()))
            jobs.append((("novalue-ending", pos, e_i, "args"), "let q0 = 0; fn three(a, b, c) { [a, b, c] } push(__o, three(\"a\", %s, \"c\"));" % ifx,
                         [("a", (("s", "a"), ("null",), ("s", "c")))], None, set()))
            jobs.append((("novalue-ending", pos, e_i, "loop"), "let q0 = 0; let i = 0; while i < 300 { %s; i = i + 1; } push(__o, i);" % ifx, [("i", 300)], None, set()))
    cases = []
    for i, (tag, src, exp, nt, tags) in enumerate(jobs):
        cases.append(Case("t%d" % i, "let __o = []; let __t = [];\n" + PRE + src, {"globals": "__o,__t", "steps": 100000}))
    # (3) generated control flow
    gjobs = []
    n = 2500 if quick else 100000
    unspec = {}
    tries = 0
    while len(gjobs) < n and tries < 20 * n:
        tries += 1
        g = gen.Gen(rng, max_depth=rng.choice([3, 4]), funcs=rng.random() < 0.5)
        g.stmt_budget = 60
        prog = g.program(rng.randint(2, 6))
        kinds = node_kinds(prog)
        if not ({"while", "loop", "match", "if"} & kinds):
            continue
        ev = gen.evaluate(prog)
        if ev["status"] not in ("ok", "error"):
            k = ev.get("reason", ev["status"])
            unspec[k] = unspec.get(k, 0) + 1
            continue
        gjobs.append((prog, gen.PRELUDE + gen.render(prog)[0], ev, kinds))
    for i, (prog, text, ev, kinds) in enumerate(gjobs):
        cases.append(Case("g%d" % i, text, {"globals": "__o", "final": 1, "steps": 400000}))
    res = core.run_cases(cases)
    KF = "range-pattern-of-another-kind"
    for i, (tag, src, exp, nt, tags) in enumerate(jobs):
        r = res.get("t%d" % i)
        if r is None:
            chk.inconc("missing result")
            continue
        oc = r.get("outcome")
        if oc == "panic":
            continue
        chk.observed(tag)
        if i % 311 == 0:
            chk.sample({"program": src, "expected": exp if isinstance(exp, str) else [show(x) for x in exp], "outcome": oc})
        if exp == "reject":
            if oc != "compile_error" and oc != "parse_errors":
                chk.violation("mixed-pattern-types-accepted|" + tag[1], "arms with patterns of different types were accepted: %s" % src, {"src": src, "outcome": oc})
            continue
        if exp == "accept":
            if oc != "ok":
                chk.violation("same-type-patterns-rejected|" + tag[1], "match with patterns of one type was rejected: %s -> %s" % (src, r.get("diag") or r.get("rt")), {"src": src})
            continue
        got = canon_dump(r["globals"]["__o"])[1] if "globals" in r else None
        tcount = len(canon_dump(r["globals"]["__t"])[1]) if "globals" in r else None
        ok = oc == "ok" and list(got) == list(exp) and (nt is None or tcount == nt)
        if not ok:
            if KF in tags and oc == "rt_error":
                sig = "match|" + KF
            else:
                sig = "ctl|%s|%s" % (tag[0], "|".join(str(x) for x in tag[1:4]))
            chk.violation(sig, "%s: expected %s%s, observed %s %s" % (
                src, [show(x) for x in exp], "" if nt is None else " with the scrutinee evaluated %d time(s)" % nt,
                [show(x) for x in got] if got is not None else oc, ("(scrutinee evaluations: %s)" % tcount) if nt else "") +
                ((" runtime error: " + r["rt"]["msg"]) if oc == "rt_error" else ""),
                {"src": src, "outcome": oc, "rt": r.get("rt")})
    for i, (prog, text, ev, kinds) in enumerate(gjobs):
        r = res.get("g%d" % i)
        if r is None:
            chk.inconc("missing result")
            continue
        if KF in ev.get("tags", ()):
            got = canon_dump(r["globals"]["__o"])[1] if "globals" in r else ()
            exp_obs = tuple(ev["obs"])
            agrees = (r.get("outcome") == ("ok" if ev["status"] == "ok" else "rt_error")) and got == exp_obs
            kf_like = False
            if r.get("outcome") == "rt_error" and not agrees:
                # is this exactly what the open finding does? evaluate again with "a range of another kind stops the program"
                ev2 = gen.evaluate(prog, range_of_another_kind_raises=True)
                kf_like = ev2.get("status") == "error" and got == tuple(ev2["obs"])
            if kf_like:
                chk.violation("match|" + KF, "generated program: a range pattern of another kind than the scrutinee raises '%s' instead of not matching" % r["rt"]["msg"],
                              {"src": text})
                chk.observed(("gen-kf", frozenset(kinds)))
                continue
        if compare(chk, prog, text, r, ev, kinds & {"if", "match", "while", "loop", "break", "continue", "fn", "fnstmt", "return"}, "ctl-gen"):
            chk.observed(("gen", frozenset(kinds)))
            if i % 499 == 0:
                chk.sample({"program": core.short(text, 300), "expected": ev["status"], "observations": [show(x) for x in ev["obs"][:6]]})
    for k, v in unspec.items():
        chk.count("discarded: " + k, v)
