"""Program generator, renderer and definitional evaluator ("directly evaluating
the source") for the language-level properties (C02, C04, C05, C07, C13, ...).

AST (tuples):
 expressions  ("lit", v) ("var", n) ("bin", op, l, r) ("un", op, x) ("arr", [e]) ("map", [(k, v)])
              ("index", b, i) ("assign", target, e) ("call", f, [args]) ("fn", params, body, name)
              ("if", c, then, els)   els: None | block(list) | ("if", ...)
              ("match", scrut, [(patterns, body)])   pattern: ("plit", v) | ("prange", lo, hi, incl) | ("pdefault",)
 statements   ("let", n, e) ("expr", e) ("block", [s]) ("fnstmt", n, params, body) ("return", e|None)
              ("while", label, c, body) ("loop", label, body) ("break", label) ("continue", label)
"""
import math

from .opmodel import Alt, RuntimeErr, Unspecified, binop, falsey, unop, values_equal
from .val import Arr, Builtin, Byte, Char, Closure, Map, canon, kind, lit

# ---------------------------------------------------------------------------
# rendering (one statement per line; records the line of every statement and of
# nodes tagged through `mark`)


class Renderer:
    def __init__(self, newline="\n"):
        self.lines = []
        self.cur = ""
        self.line_of = {}   # id(node) -> line number (1-based)
        self.nl = newline

    def line_no(self):
        return len(self.lines) + 1

    def emit(self, text):
        self.cur += text

    def newline(self):
        self.lines.append(self.cur)
        self.cur = ""

    def text(self):
        ls = self.lines + ([self.cur] if self.cur else [])
        return self.nl.join(ls) + self.nl

    # expressions are rendered on the current line
    def expr(self, e, top=False):
        self.line_of[id(e)] = self.line_no()
        t = e[0]
        if t == "lit":
            return lit(e[1])
        if t == "var":
            return e[1]
        if t == "bin":
            return "%s %s %s" % (self.operand(e[2]), e[1], self.operand(e[3]))
        if t == "un":
            return "%s%s" % (e[1], self.operand(e[2]))
        if t == "arr":
            return "[" + ", ".join(self.expr(x) for x in e[1]) + "]"
        if t == "map":
            return "map {" + ", ".join("%s: %s" % (self.expr(k), self.expr(v)) for k, v in e[1]) + "}"
        if t == "index":
            return "%s[%s]" % (self.operand(e[1], postfix=True), self.expr(e[2]))
        if t == "assign":
            return "%s = %s" % (self.expr(e[1]), self.expr(e[2]))
        if t == "call":
            return "%s(%s)" % (self.operand(e[1], postfix=True), ", ".join(self.expr(a) for a in e[2]))
        if t == "fn":
            return "fn(%s) %s" % (", ".join(e[1]), self.inline_block(e[2]))
        if t == "if":
            s = "if %s %s" % (self.expr(e[1]), self.inline_block(e[2]))
            if e[3] is not None:
                if isinstance(e[3], tuple):
                    s += " else " + self.expr(e[3])
                else:
                    s += " else " + self.inline_block(e[3])
            return s
        if t == "match":
            arms = []
            for pats, body in e[2]:
                arms.append("%s => %s" % (" | ".join(self.pattern(p) for p in pats), self.inline_block(body)))
            return "match %s { %s }" % (self.expr(e[1]), ", ".join(arms))
        raise ValueError(t)

    def pattern(self, p):
        if p[0] == "plit":
            return str(p[1]) if isinstance(p[1], int) and not isinstance(p[1], bool) else lit(p[1])
        if p[0] == "prange":
            lo = lit(p[1]) if not isinstance(p[1], int) else str(p[1])
            hi = lit(p[2]) if not isinstance(p[2], int) else str(p[2])
            return "%s%s%s" % (lo, "..=" if p[3] else "..", hi)
        return "_"

    def operand(self, e, postfix=False):
        s = self.expr(e)
        t = e[0]
        if t in ("lit",):
            v = e[1]
            if isinstance(v, (int, float)) and not isinstance(v, bool) and postfix and s.startswith("("):
                return s
            return s
        if t in ("var", "arr", "index", "call"):
            return s
        if t == "map":
            return s
        return "(%s)" % s

    def inline_block(self, stmts):
        """blocks inside expressions are rendered over several lines"""
        self.emit_pending = None
        out = "{"
        # flush what has been produced so far is the caller's job: we return text with embedded newlines markers
        parts = []
        for s in stmts:
            parts.append(self.stmt_text(s))
        if not parts:
            return "{ }"
        return "{ " + " ".join(parts) + " }"

    def stmt_text(self, s):
        """statement rendered on the current line (used inside expression blocks)"""
        self.line_of[id(s)] = self.line_no()
        t = s[0]
        if t == "let":
            return "let %s = %s;" % (s[1], self.expr(s[2]))
        if t == "expr":
            return "%s;" % self.expr(s[1])
        if t == "block":
            return self.inline_block(s[1])
        if t == "fnstmt":
            return "fn %s(%s) %s" % (s[1], ", ".join(s[2]), self.inline_block(s[3]))
        if t == "return":
            return "return;" if s[1] is None else "return %s;" % self.expr(s[1])
        if t == "while":
            return "%swhile %s %s" % ((s[1] + ": ") if s[1] else "", self.expr(s[2]), self.inline_block(s[3]))
        if t == "loop":
            return "%sloop %s" % ((s[1] + ": ") if s[1] else "", self.inline_block(s[2]))
        if t == "break":
            return "break%s;" % ((" " + s[1]) if s[1] else "")
        if t == "continue":
            return "continue%s;" % ((" " + s[1]) if s[1] else "")
        raise ValueError(t)

    # statements at block level: one per line, nested blocks indented over several lines
    def stmt(self, s, indent=0):
        pad = "  " * indent
        t = s[0]
        self.line_of[id(s)] = self.line_no()
        if t == "block":
            self.emit(pad + "{")
            self.newline()
            for x in s[1]:
                self.stmt(x, indent + 1)
            self.emit(pad + "}")
            self.newline()
        elif t == "fnstmt":
            self.emit(pad + "fn %s(%s) {" % (s[1], ", ".join(s[2])))
            self.newline()
            for x in s[3]:
                self.stmt(x, indent + 1)
            self.emit(pad + "}")
            self.newline()
        elif t == "while":
            self.emit(pad + "%swhile %s {" % ((s[1] + ": ") if s[1] else "", self.expr(s[2])))
            self.newline()
            for x in s[3]:
                self.stmt(x, indent + 1)
            self.emit(pad + "}")
            self.newline()
        elif t == "loop":
            self.emit(pad + "%sloop {" % ((s[1] + ": ") if s[1] else ""))
            self.newline()
            for x in s[2]:
                self.stmt(x, indent + 1)
            self.emit(pad + "}")
            self.newline()
        elif t == "expr" and s[1][0] == "if" and multi_line_if(s[1]):
            self.if_lines(s[1], indent, pad)
            self.emit(";")
            self.newline()
        else:
            self.emit(pad + self.stmt_text(s))
            self.newline()

    def if_lines(self, e, indent, pad, first=True):
        self.line_of[id(e)] = self.line_no()
        self.emit((pad if first else "") + "if %s {" % self.expr(e[1]))
        self.newline()
        for x in e[2]:
            self.stmt(x, indent + 1)
        self.emit(pad + "}")
        if e[3] is not None:
            if isinstance(e[3], tuple):
                self.emit(" else ")
                self.if_lines(e[3], indent, pad, first=False)
            else:
                self.emit(" else {")
                self.newline()
                for x in e[3]:
                    self.stmt(x, indent + 1)
                self.emit(pad + "}")


def multi_line_if(e):
    def has_stmt(b):
        return any(s[0] in ("while", "loop", "block", "fnstmt") or (s[0] == "expr" and s[1][0] == "if") for s in b)
    if has_stmt(e[2]):
        return True
    if e[3] is None:
        return False
    if isinstance(e[3], tuple):
        return multi_line_if(e[3])
    return has_stmt(e[3])


def render(program, newline="\n"):
    r = Renderer(newline)
    for s in program:
        r.stmt(s, 0)
    return r.text(), r.line_of


# ---------------------------------------------------------------------------
# evaluator

class Cell:
    __slots__ = ("v",)

    def __init__(self, v):
        self.v = v


class Scope:
    __slots__ = ("vars", "parent", "glob")

    def __init__(self, parent, glob):
        self.vars = {}
        self.parent = parent
        self.glob = glob     # True for the global scope and top-level blocks

    def find(self, name):
        s = self
        while s is not None:
            c = s.vars.get(name)
            if c is not None:
                return c
            s = s.parent
        return None


class BreakSig(Exception):
    def __init__(self, label):
        self.label = label


class ContinueSig(Exception):
    def __init__(self, label):
        self.label = label


class ReturnSig(Exception):
    def __init__(self, v):
        self.v = v


class EvalError(RuntimeErr):
    """runtime error with the node that failed"""

    def __init__(self, node, msg=""):
        RuntimeErr.__init__(self, msg)
        self.node = node


class StepLimit(Exception):
    pass


PURE_BUILTINS = ("len", "first", "last", "rest", "push", "pop", "str", "int", "is_error", "chars", "join", "get", "contains", "insert")


class Evaluator:
    def __init__(self, max_steps=200000, max_depth=60):
        self.obs = []
        self.steps = 0
        self.max_steps = max_steps
        self.depth = 0
        self.max_depth = max_depth
        self.glob = Scope(None, True)
        self.obs_arr = Arr([])
        self.obs = self.obs_arr.items
        self.glob.vars["__o"] = Cell(self.obs_arr)
        self.last = None
        self.tags = set()
        self.cyclic = False

    def note_insert(self, container, value):
        """remember that a container came to contain itself (directly or through other containers)"""
        if self.cyclic or kind(value) not in ("array", "map"):
            return
        seen = set()
        todo = [value]
        n = 0
        while todo and n < 20000:
            x = todo.pop()
            n += 1
            if x is container:
                self.cyclic = True
                return
            if id(x) in seen:
                continue
            seen.add(id(x))
            if kind(x) == "array":
                todo.extend(y for y in x.items if kind(y) in ("array", "map"))
            elif kind(x) == "map":
                for kk, vv in x.pairs:
                    if kind(kk) in ("array", "map"):
                        todo.append(kk)
                    if kind(vv) in ("array", "map"):
                        todo.append(vv)

    def tick(self):
        self.steps += 1
        if self.steps > self.max_steps:
            raise StepLimit()

    # -- statements
    def run(self, program):
        """-> ('ok', final) | ('error', node)"""
        try:
            for s in program:
                self.stmt(s, self.glob)
            return ("ok", self.last)
        except EvalError as e:
            return ("error", e.node)

    def block(self, stmts, scope):
        """executes a block in a fresh scope; returns the value of the block"""
        inner = Scope(scope, scope.glob)
        v = None
        has_value = False
        for i, s in enumerate(stmts):
            has_value = False
            if s[0] == "expr":
                v = self.expr(s[1], inner)
                has_value = True
                self.last = v
            else:
                self.stmt(s, inner)
        return v if has_value else None

    def stmt(self, s, scope):
        self.tick()
        t = s[0]
        if t == "let":
            e = s[2]
            if e[0] == "fn":
                # the function can refer to itself by its own name
                v = self.make_closure(e, scope, s[1])
            else:
                v = self.expr(e, scope)
            scope.vars[s[1]] = Cell(v)
            self.last = v
        elif t == "expr":
            self.last = self.expr(s[1], scope)
        elif t == "block":
            self.block(s[1], scope)
        elif t == "fnstmt":
            v = self.make_closure(("fn", s[2], s[3]), scope, s[1])
            scope.vars[s[1]] = Cell(v)
            self.last = v
        elif t == "return":
            raise ReturnSig(None if s[1] is None else self.expr(s[1], scope))
        elif t == "while":
            while True:
                self.tick()
                c = self.expr(s[2], scope)
                if falsey(c):
                    break
                try:
                    self.block(s[3], scope)
                except BreakSig as b:
                    if b.label is None or b.label == s[1]:
                        break
                    raise
                except ContinueSig as c2:
                    if c2.label is None or c2.label == s[1]:
                        continue
                    raise
        elif t == "loop":
            while True:
                self.tick()
                try:
                    self.block(s[2], scope)
                except BreakSig as b:
                    if b.label is None or b.label == s[1]:
                        break
                    raise
                except ContinueSig as c2:
                    if c2.label is None or c2.label == s[1]:
                        continue
                    raise
        elif t == "break":
            raise BreakSig(s[1])
        elif t == "continue":
            raise ContinueSig(s[1])
        else:
            raise ValueError(t)

    def make_closure(self, e, scope, name):
        """Lexical scoping: the closure sees exactly the bindings visible where it is written.
        Locals and parameters of the enclosing functions are captured by value, now; global-level
        bindings (globals and variables of top-level blocks) are shared by reference, but bindings
        added to those scopes later are not visible to the closure."""
        chain = []
        s = scope
        while s is not None:
            chain.append(s)
            s = s.parent
        env = None
        snap = None
        for sc in reversed(chain):          # outermost first
            if sc.glob:
                ns = Scope(env, True)
                ns.vars = dict(sc.vars)      # same cells, frozen set of names
                env = ns
            else:
                if snap is None:
                    snap = Scope(env, False)
                    env = snap
                for k, c in sc.vars.items():
                    snap.vars[k] = Cell(c.v)
        return Closure(fn=(e[1], e[2]), free=env, name=name)

    # -- expressions
    def expr(self, e, scope):
        self.tick()
        t = e[0]
        if t == "lit":
            v = e[1]
            return v
        if t == "var":
            c = scope.find(e[1])
            if c is None:
                if e[1] in PURE_BUILTINS or e[1] in ("puts",):
                    return Builtin(e[1])
                raise Unspecified("unbound name %s reached the evaluator" % e[1])
            return c.v
        if t == "bin":
            op = e[1]
            if op == "&&":
                l = self.expr(e[2], scope)
                return l if falsey(l) else self.expr(e[3], scope)
            if op == "||":
                l = self.expr(e[2], scope)
                return self.expr(e[3], scope) if falsey(l) else l
            if op in ("<", "<="):
                r = self.expr(e[3], scope)
                l = self.expr(e[2], scope)
            else:
                l = self.expr(e[2], scope)
                r = self.expr(e[3], scope)
            try:
                v = binop(op, l, r)
            except RuntimeErr:
                raise EvalError(e)
            if isinstance(v, Alt):
                raise Unspecified("alternative outcomes")
            return v
        if t == "un":
            x = self.expr(e[2], scope)
            try:
                return unop(e[1], x)
            except RuntimeErr:
                raise EvalError(e)
        if t == "arr":
            return Arr([self.expr(x, scope) for x in e[1]])
        if t == "map":
            m = Map([])
            for k, v in e[1]:
                kv = self.expr(k, scope)
                vv = self.expr(v, scope)
                self.map_set(m, kv, vv, e)
            return m
        if t == "index":
            b = self.expr(e[1], scope)
            i = self.expr(e[2], scope)
            return self.index_get(b, i, e)
        if t == "assign":
            v = self.expr(e[2], scope)
            tgt = e[1]
            if tgt[0] == "var":
                c = scope.find(tgt[1])
                if c is None:
                    raise Unspecified("assignment to unbound name")
                c.v = v
                return v
            b = self.expr(tgt[1], scope)
            i = self.expr(tgt[2], scope)
            if kind(b) == "array":
                if kind(i) != "int" or not (0 <= i < len(b.items)):
                    raise EvalError(tgt)
                self.note_insert(b, v)
                b.items[i] = v
                return v
            if kind(b) == "map":
                self.map_set(b, i, v, tgt)
                return v
            raise EvalError(tgt)
        if t == "call":
            f = self.expr(e[1], scope)
            args = [self.expr(a, scope) for a in e[2]]
            return self.call(f, args, e)
        if t == "fn":
            return self.make_closure(e, scope, e[3] if len(e) > 3 else None)
        if t == "if":
            c = self.expr(e[1], scope)
            if not falsey(c):
                return self.block(e[2], scope)
            if e[3] is None:
                return None
            if isinstance(e[3], tuple):
                return self.expr(e[3], scope)
            return self.block(e[3], scope)
        if t == "match":
            sv = self.expr(e[1], scope)
            for pats, body in e[2]:
                for p in pats:
                    if self.pat_match(p, sv, e):
                        return self.block(body, scope)
            return None
        raise ValueError(t)

    def pat_match(self, p, sv, node):
        if p[0] == "pdefault":
            return True
        if p[0] == "plit":
            try:
                return values_equal(sv, p[1])
            except Unspecified:
                raise
        lo, hi, incl = p[1], p[2], p[3]
        ks, kl = kind(sv), kind(lo)
        cls = {"int": "num", "float": "num"}
        if cls.get(ks, ks) != cls.get(kl, kl):
            self.tags.add("range-pattern-of-another-kind")
            if getattr(self, "kf_range_raises", False):
                raise EvalError(node)
            return False          # a range of another kind does not contain the value
        if ks == "float" and sv != sv:
            return False
        try:
            if not binop(">=", sv, lo):
                return False
            return binop("<=", sv, hi) if incl else binop("<", sv, hi)
        except RuntimeErr:
            return False

    def valid_key(self, k):
        return kind(k) in ("string", "char", "byte", "int", "float", "bool", "null", "builtin", "array")

    def map_find(self, m, k):
        for idx, (kk, vv) in enumerate(m.pairs):
            if values_equal(kk, k):
                return idx
        return None

    def map_set(self, m, k, v, node):
        if not self.valid_key(k):
            raise EvalError(node)
        if kind(k) == "float" and k != k:
            raise Unspecified("NaN key")
        self.note_insert(m, v)
        self.note_insert(m, k)
        i = self.map_find(m, k)
        if i is None:
            m.pairs.append((k, v))
        else:
            m.pairs[i] = (m.pairs[i][0], v)

    def index_get(self, b, i, node):
        if kind(b) == "array":
            if kind(i) != "int" or not (0 <= i < len(b.items)):
                raise EvalError(node)
            return b.items[i]
        if kind(b) == "map":
            if not self.valid_key(i):
                raise EvalError(node)
            j = self.map_find(b, i)
            if j is None:
                raise EvalError(node)
            if b.pairs[j][1] is None:
                raise Unspecified("indexing a key whose value is null")
            return b.pairs[j][1]
        raise EvalError(node)

    def call(self, f, args, node):
        if isinstance(f, Builtin):
            return self.builtin(f.name, args, node)
        if not isinstance(f, Closure):
            raise EvalError(node)
        params, body = f.fn
        if len(params) != len(args):
            raise EvalError(node)
        self.depth += 1
        if self.depth > self.max_depth:
            raise Unspecified("recursion deeper than the evaluator's bound")
        try:
            base = f.free
            if f.name:
                ns = Scope(base, False)
                ns.vars[f.name] = Cell(f)
                base = ns
            sc = Scope(base, False)
            for p, a in zip(params, args):
                sc.vars[p] = Cell(a)
            try:
                # the body block shares the parameter scope's visibility but is a block of its own
                v = None
                has_value = False
                inner = Scope(sc, False)
                for s in body:
                    has_value = False
                    if s[0] == "expr":
                        v = self.expr(s[1], inner)
                        has_value = True
                    else:
                        self.stmt(s, inner)
                if has_value:
                    return v
                if body and body[-1][0] in ("block", "while", "loop"):
                    raise Unspecified("value of a function whose last statement is a block or a loop")
                return None
            except ReturnSig as r:
                return r.v
        finally:
            self.depth -= 1

    def builtin(self, name, a, node):
        n = len(a)
        k0 = kind(a[0]) if n else None

        def bad():
            raise EvalError(node)
        if name == "len":
            if n != 1:
                bad()
            if k0 == "string":
                return len(a[0].encode("utf-8"))
            if k0 == "array":
                return len(a[0].items)
            if k0 == "map":
                return len(a[0].pairs)
            bad()
        if name in ("first", "last"):
            if n != 1 or k0 != "array":
                bad()
            if not a[0].items:
                return None
            return a[0].items[0] if name == "first" else a[0].items[-1]
        if name == "rest":
            if n != 1 or k0 != "array":
                bad()
            return Arr(a[0].items[1:]) if a[0].items else None
        if name == "push":
            if n != 2 or k0 != "array":
                bad()
            self.note_insert(a[0], a[1])
            a[0].items.append(a[1])
            return None
        if name == "pop":
            if n != 1 or k0 != "array":
                bad()
            return a[0].items.pop() if a[0].items else None
        if name == "str":
            if n != 1:
                bad()
            if k0 == "string":
                return a[0]
            if k0 == "int":
                return str(a[0])
            if k0 == "bool":
                return "true" if a[0] else "false"
            if k0 == "null":
                return "null"
            if k0 == "char":
                return chr(a[0].cp)
            raise Unspecified("str of %s" % k0)
        if name == "int":
            if n != 1:
                bad()
            if k0 == "int":
                return a[0]
            if k0 == "bool":
                return 1 if a[0] else 0
            if k0 == "char":
                return a[0].cp
            if k0 == "byte":
                return a[0].n
            if k0 == "float" and a[0] == a[0] and abs(a[0]) < 2.0 ** 63:
                return int(a[0])
            if k0 in ("float", "string"):
                raise Unspecified("int of %s" % k0)
            bad()
        if name == "is_error":
            if n != 1:
                bad()
            return False
        if name == "chars":
            if n != 1 or k0 != "string":
                bad()
            return Arr([Char(c) for c in a[0]])
        if name == "join":
            if n != 1 or k0 != "array" or any(kind(x) != "char" for x in a[0].items):
                if n == 1 and k0 == "array":
                    bad()
                raise Unspecified("join variants")
            return "".join(chr(x.cp) for x in a[0].items)
        if name == "get":
            if n != 2:
                bad()
            if k0 == "array":
                if kind(a[1]) != "int":
                    bad()
                return a[0].items[a[1]] if 0 <= a[1] < len(a[0].items) else None
            if k0 == "map":
                if not self.valid_key(a[1]):
                    raise Unspecified("get with an invalid key")
                j = self.map_find(a[0], a[1])
                return None if j is None else a[0].pairs[j][1]
            bad()
        if name == "contains":
            if n != 2 or k0 != "map":
                bad()
            if not self.valid_key(a[1]):
                raise Unspecified("contains with an invalid key")
            return self.map_find(a[0], a[1]) is not None
        if name == "insert":
            if n != 3 or k0 != "map":
                bad()
            if not self.valid_key(a[1]) or (kind(a[1]) == "float" and a[1] != a[1]):
                raise Unspecified("insert with an invalid key")
            self.note_insert(a[0], a[2])
            self.note_insert(a[0], a[1])
            j = self.map_find(a[0], a[1])
            if j is None:
                a[0].pairs.append((a[1], a[2]))
                return None
            old = a[0].pairs[j][1]
            a[0].pairs[j] = (a[0].pairs[j][0], a[2])
            return old
        raise Unspecified("builtin %s" % name)


def evaluate(program, max_steps=200000, range_of_another_kind_raises=False):
    """-> dict(status='ok'|'error'|'unspecified'|'steps', obs=[canon], final=canon|None, node=failing node)

    range_of_another_kind_raises=True evaluates the program as the implementation with the open finding KF-C05-1 does
    (a range pattern whose bounds are of another kind than the scrutinee stops the program); used only to tell that
    finding apart from any other disagreement."""
    ev = Evaluator(max_steps)
    ev.kf_range_raises = range_of_another_kind_raises
    try:
        st, x = ev.run(program)
    except Unspecified as u:
        return {"status": "unspecified", "reason": str(u), "cyclic": ev.cyclic}
    except StepLimit:
        return {"status": "steps", "cyclic": ev.cyclic}
    except (BreakSig, ContinueSig, ReturnSig):
        return {"status": "unspecified", "reason": "stray control transfer", "cyclic": ev.cyclic}
    except RecursionError:
        return {"status": "unspecified", "reason": "python recursion", "cyclic": True}
    from .val import TooDeep
    try:
        obs = [canon(v) for v in ev.obs]
        if st == "ok":
            x = canon(x)
    except TooDeep:
        return {"status": "unspecified", "reason": "self-containing container", "cyclic": True}
    if st == "ok":
        return {"status": "ok", "obs": obs, "final": x, "steps": ev.steps, "tags": ev.tags, "cyclic": ev.cyclic}
    return {"status": "error", "obs": obs, "node": x, "steps": ev.steps, "tags": ev.tags, "cyclic": ev.cyclic}


# ---------------------------------------------------------------------------
# generator

INT_POOL = [0, 1, 2, 3, 5, 7, 10, -1, -2, 63, 64, 65, 100, 255, (1 << 63) - 1, -(1 << 63), (1 << 31), 1000000007]
FLOAT_POOL = [0.0, 1.5, -2.5, 0.5, 3.0, 1e10, -0.0, math.inf, 100.25]
STR_POOL = ["", "a", "ab", "hello", "é", "x y", "Z"]


class Gen:
    """Random well-formed programs with static bookkeeping of what is visible.
    Types are tracked loosely ('int', 'float', 'bool', 'str', 'arr', 'map', 'fnN', 'any') so that most
    programs run to completion; `illtyped` drops that care."""

    def __init__(self, rng, unique_names=True, illtyped=False, shadow=False, ctl_in_operands=False, max_depth=4,
                 funcs=True, loops=True, matches=True):
        self.rng = rng
        self.unique = unique_names
        self.illtyped = illtyped
        self.shadow = shadow
        self.ctl_in_operands = ctl_in_operands
        self.max_depth = max_depth
        self.funcs = funcs
        self.loops = loops
        self.matches = matches
        self.counter = 0
        self.scopes = [dict()]        # name -> type ; innermost last
        self.fn_depth = 0
        self.loop_labels = []         # stack of (label|None) for the current function
        self.in_value_pos = 0
        self.stmt_budget = 40
        self.dead = []               # names whose scope has ended
        self.use_dead = False        # C04: sometimes use a name that is no longer / not yet visible
        self.expect_compile_error = None

    # -- names
    def fresh(self, prefix="v"):
        self.counter += 1
        return "%s%d" % (prefix, self.counter)

    def visible(self, want=None):
        out = []
        seen = set()
        for sc in reversed(self.scopes):
            for n, t in sc.items():
                if n in seen:
                    continue
                seen.add(n)
                if want is None or t == want or (want == "fn" and t.startswith("fn")):
                    out.append((n, t))
        return out

    def define(self, name, typ):
        self.scopes[-1][name] = typ

    def pick_name_for_let(self, rhs=None):
        if self.shadow and self.rng.random() < 0.6:
            vis = [n for n, t in self.visible() if not t.startswith("fn") and n != "__o" and not n.startswith("i")]
            pool = vis + ["a", "b", "c"]
            used = names_in(rhs) if rhs is not None else set()
            pool = [n for n in pool if n not in used]
            if pool:
                return self.rng.choice(pool)
        return self.fresh()

    def pop_scope(self):
        sc = self.scopes.pop()
        self.dead.extend(sc.keys())

    # -- expressions
    def expr(self, typ, depth):
        r = self.rng
        if self.illtyped and r.random() < 0.25:
            typ = r.choice(["int", "float", "bool", "str", "arr", "map", "any"])
        if depth <= 0 or r.random() < 0.25:
            return self.atom(typ)
        k = r.random()
        if typ == "int":
            if k < 0.45:
                op = r.choice(["+", "-", "*", "+", "-", "%", "/", "&", "|", "^", "<<", ">>"])
                return ("bin", op, self.expr("int", depth - 1), self.expr("int", depth - 1))
            if k < 0.52:
                return ("un", r.choice(["-", "~"]), self.expr("int", depth - 1))
            if k < 0.60:
                return ("call", ("var", "len"), [self.expr(r.choice(["arr", "str"]), depth - 1)])
            if k < 0.70:
                return self.cond_expr("int", depth)
            if k < 0.78 and self.matches:
                return self.match_expr("int", depth)
            if k < 0.88:
                f = self.pick_fn()
                if f:
                    return self.call_fn(f, depth)
            if k < 0.94:
                arrs = self.visible("arr")
                if arrs:
                    n = r.choice(arrs)[0]
                    return ("index", ("var", n), ("lit", 0))
            return self.assign_expr("int", depth) or self.atom("int")
        if typ == "float":
            if k < 0.6:
                return ("bin", r.choice(["+", "-", "*"]), self.expr("float", depth - 1), self.expr(r.choice(["float", "int"]), depth - 1))
            return self.atom("float")
        if typ == "bool":
            if k < 0.35:
                t = r.choice(["int", "int", "str", "float"])
                return ("bin", r.choice(["==", "!=", "<", ">", "<=", ">="]), self.expr(t, depth - 1), self.expr(t, depth - 1))
            if k < 0.55:
                return ("bin", r.choice(["&&", "||"]), self.expr("bool", depth - 1), self.expr("bool", depth - 1))
            if k < 0.65:
                return ("un", "!", self.expr(r.choice(["bool", "int", "str", "arr"]), depth - 1))
            if k < 0.75:
                return ("bin", "==", self.expr("any", depth - 1), self.expr("any", depth - 1))
            return self.atom("bool")
        if typ == "str":
            if k < 0.4:
                return ("bin", "+", self.expr("str", depth - 1), self.expr("str", depth - 1))
            if k < 0.55:
                return ("call", ("var", "str"), [self.expr(r.choice(["int", "bool"]), depth - 1)])
            if k < 0.65:
                return ("bin", "*", self.expr("str", depth - 1), ("lit", r.randint(0, 3)))
            return self.atom("str")
        if typ == "arr":
            if k < 0.5:
                return ("arr", [self.expr("int", depth - 1) for _ in range(r.randint(0, 4))])
            if k < 0.65:
                return ("bin", "+", self.expr("arr", depth - 1), self.expr("arr", depth - 1))
            if k < 0.75:
                return ("call", ("var", "rest"), [("arr", [self.expr("int", depth - 1) for _ in range(r.randint(1, 3))])])
            return self.atom("arr")
        if typ == "map":
            if k < 0.6:
                pairs = []
                for _ in range(r.randint(0, 3)):
                    pairs.append((self.expr(r.choice(["int", "str", "bool"]), depth - 1), self.expr("int", depth - 1)))
                return ("map", pairs)
            return self.atom("map")
        # any
        return self.expr(r.choice(["int", "int", "bool", "str", "arr", "float"]), depth)

    def atom(self, typ):
        r = self.rng
        if typ == "any":
            typ = r.choice(["int", "bool", "str", "arr", "float", "null"])
        vs = self.visible(typ)
        if vs and r.random() < 0.55:
            return ("var", r.choice(vs)[0])
        if typ == "int":
            return ("lit", r.choice(INT_POOL) if r.random() < 0.5 else r.randint(-20, 20))
        if typ == "float":
            return ("lit", r.choice(FLOAT_POOL))
        if typ == "bool":
            return ("lit", r.random() < 0.5)
        if typ == "str":
            return ("lit", r.choice(STR_POOL))
        if typ == "arr":
            return ("arr", [("lit", r.randint(0, 9)) for _ in range(r.randint(0, 3))])
        if typ == "map":
            return ("map", [(("lit", i), ("lit", r.randint(0, 9))) for i in range(r.randint(0, 2))])
        return ("lit", None)

    def pick_fn(self):
        fs = [(n, t) for n, t in self.visible("fn")]
        return self.rng.choice(fs) if fs else None

    def call_fn(self, f, depth):
        n, t = f
        ar = int(t[2:])
        if self.illtyped and self.rng.random() < 0.1:
            ar += self.rng.choice([-1, 1])
        return ("call", ("var", n), [self.expr("int", depth - 1) for _ in range(max(0, ar))])

    def assign_expr(self, typ, depth):
        vs = [n for n, t in self.visible(typ) if n != "__o" and not n.startswith("i")]
        if not vs:
            return None
        return ("assign", ("var", self.rng.choice(vs)), self.expr(typ, depth - 1))

    def cond_expr(self, typ, depth):
        r = self.rng
        c = self.expr(r.choice(["bool", "bool", "int", "str", "arr"]), depth - 1)
        then = self.value_block(typ, depth - 1)
        k = r.random()
        if k < 0.2:
            els = None
        elif k < 0.8:
            els = self.value_block(typ, depth - 1)
        else:
            els = ("if", self.expr("bool", depth - 1), self.value_block(typ, depth - 1), self.value_block(typ, depth - 1))
        return ("if", c, then, els)

    def value_block(self, typ, depth):
        """a block whose last statement is an expression of `typ` (sometimes value-less)"""
        self.scopes.append({})
        stmts = []
        for _ in range(self.rng.randint(0, 2)):
            s = self.simple_stmt(depth)
            if s:
                stmts.append(s)
        if self.rng.random() < 0.9:
            stmts.append(("expr", self.expr(typ, depth)))
        self.pop_scope()
        return stmts

    def match_expr(self, typ, depth):
        r = self.rng
        pk = r.choice(["int", "int", "str", "bool", "char"])
        if pk == "int":
            scrut = self.expr("int", depth - 1) if r.random() < 0.7 else ("lit", r.randint(-2, 8))
        elif pk == "str":
            scrut = self.expr("str", depth - 1)
        elif pk == "bool":
            scrut = self.expr("bool", depth - 1)
        else:
            scrut = ("lit", Char(r.choice("abcxyz")))
        arms = []
        for _ in range(r.randint(1, 4)):
            pats = []
            for _ in range(r.randint(1, 3)):
                if pk == "int":
                    if r.random() < 0.4:
                        lo = r.randint(0, 6)
                        pats.append(("prange", lo, max(0, lo + r.randint(-1, 5)), r.random() < 0.5))
                    else:
                        pats.append(("plit", r.randint(0, 8)))
                elif pk == "str":
                    pats.append(("plit", r.choice(STR_POOL)))
                elif pk == "bool":
                    pats.append(("plit", r.random() < 0.5))
                else:
                    if r.random() < 0.4:
                        pats.append(("prange", Char("a"), Char(r.choice("cdz")), r.random() < 0.5))
                    else:
                        pats.append(("plit", Char(r.choice("abcxyz"))))
            arms.append((pats, self.value_block(typ, depth - 1)))
        if r.random() < 0.6:
            arms.append(([("pdefault",)], self.value_block(typ, depth - 1)))
        return ("match", scrut, arms)

    # -- statements
    def obs(self, e):
        return ("expr", ("call", ("var", "push"), [("var", "__o"), e]))

    def simple_stmt(self, depth):
        r = self.rng
        k = r.random()
        if k < 0.45:
            typ = r.choice(["int", "int", "int", "str", "bool", "arr", "float", "map"])
            e = self.expr(typ, depth)
            name = self.pick_name_for_let(e)
            self.define(name, typ)
            return ("let", name, e)
        if k < 0.7:
            return self.obs(self.expr(r.choice(["int", "int", "str", "bool", "arr", "any"]), depth))
        if k < 0.85:
            for typ in r.sample(["int", "str", "bool", "arr"], 4):
                a = self.assign_expr(typ, depth)
                if a:
                    return ("expr", a)
            return None
        arrs = [n for n, t in self.visible("arr") if n != "__o"]
        if arrs:
            n = r.choice(arrs)
            if r.random() < 0.5:
                return ("expr", ("call", ("var", "push"), [("var", n), self.expr("int", depth - 1)]))
            return ("expr", ("assign", ("index", ("var", n), ("lit", r.randint(0, 2))), self.expr("int", depth - 1)))
        return self.obs(self.expr("int", depth))

    def stmt(self, depth):
        r = self.rng
        self.stmt_budget -= 1
        if self.use_dead and self.expect_compile_error is None and self.dead and r.random() < 0.08:
            vis = set(n for n, _ in self.visible())
            cands = [n for n in self.dead if n not in vis]
            if cands:
                n = r.choice(cands)
                self.expect_compile_error = n
                return self.obs(("var", n))
        if self.stmt_budget <= 0 or depth <= 0:
            return self.simple_stmt(max(depth, 1))
        k = r.random()
        if k < 0.50:
            return self.simple_stmt(depth)
        if k < 0.60:
            return ("expr", self.cond_stmt(depth))
        if k < 0.68 and self.matches:
            return ("expr", self.match_expr("int", depth))
        if k < 0.80 and self.loops:
            return self.loop_stmt(depth)
        if k < 0.90 and self.funcs and self.fn_depth < 3:
            return self.fn_def(depth)
        if k < 0.95:
            self.scopes.append({})
            body = self.stmts(r.randint(1, 3), depth - 1)
            self.pop_scope()
            return ("block", body)
        return self.simple_stmt(depth)

    def stmts(self, n, depth):
        out = []
        for _ in range(n):
            s = self.stmt(depth)
            if s:
                out.append(s)
        return out

    def cond_stmt(self, depth):
        """statement-level if: branches may hold break/continue"""
        r = self.rng
        c = self.expr(r.choice(["bool", "bool", "int"]), depth - 1)
        self.scopes.append({})
        then = self.stmts(r.randint(0, 2), depth - 1) + self.maybe_ctl()
        self.pop_scope()
        els = None
        if r.random() < 0.5:
            self.scopes.append({})
            els = self.stmts(r.randint(0, 2), depth - 1) + self.maybe_ctl()
            self.pop_scope()
        return ("if", c, then, els)

    def maybe_ctl(self):
        r = self.rng
        if not self.loop_labels or r.random() < 0.6:
            return []
        lab = None
        if r.random() < 0.4:
            labs = [l for l in self.loop_labels if l]
            if labs:
                lab = r.choice(labs)
        return [(r.choice(["break", "continue"]), lab)]

    def loop_stmt(self, depth):
        r = self.rng
        ctr = self.fresh("i")
        bound = r.randint(1, 6)
        label = self.fresh("L") if r.random() < 0.4 else None
        self.define(ctr, "int")
        pre = ("let", ctr, ("lit", 0))
        self.loop_labels.append(label)
        self.scopes.append({})
        inc = ("expr", ("assign", ("var", ctr), ("bin", "+", ("var", ctr), ("lit", 1))))
        body = [inc] + self.stmts(r.randint(1, 3), depth - 1)
        self.pop_scope()
        self.loop_labels.pop()
        if r.random() < 0.6:
            loop = ("while", label, ("bin", r.choice(["<", "<="]), ("var", ctr), ("lit", bound)), body)
        else:
            brk = ("expr", ("if", ("bin", ">=", ("var", ctr), ("lit", bound)), [("break", None)], None))
            loop = ("loop", label, [brk] + body)
        return ("block", [pre, loop]) if False else [pre, loop]

    def fn_def(self, depth):
        r = self.rng
        name = self.fresh("f")
        params = [self.fresh("p") for _ in range(r.randint(0, 3))]
        saved_labels = self.loop_labels
        self.loop_labels = []
        self.fn_depth += 1
        self.scopes.append({p: "int" for p in params})
        # the function may call itself, guarded by its first parameter
        body = []
        if params and r.random() < 0.3:
            rec = ("call", ("var", name), [("bin", "-", ("var", params[0]), ("lit", 1))] + [("var", p) for p in params[1:]])
            guard = ("bin", "||", ("bin", "<=", ("var", params[0]), ("lit", 0)), ("bin", ">", ("var", params[0]), ("lit", 8)))
            body.append(("expr", ("if", guard, [("return", ("lit", 0))], None)))
            body += self.stmts(r.randint(0, 2), depth - 1)
            body.append(("expr", ("bin", "+", rec, ("lit", 1))))
            self.recursive = True
        else:
            body += self.stmts(r.randint(0, 3), depth - 1)
            if r.random() < 0.2:
                body.append(("return", self.expr("int", depth - 1)))
            else:
                body.append(("expr", self.expr("int", depth - 1)))
        self.pop_scope()
        self.fn_depth -= 1
        self.loop_labels = saved_labels
        self.define(name, "fn%d" % len(params))
        if r.random() < 0.5:
            return ("fnstmt", name, params, body)
        return ("let", name, ("fn", params, body))

    def program(self, n=None):
        n = n or self.rng.randint(3, 12)
        self.define("__o", "obsarr")
        out = []
        for _ in range(n):
            s = self.stmt(self.max_depth)
            if s is None:
                continue
            if isinstance(s, list):
                out.extend(s)
            else:
                out.append(s)
        # make what was computed observable
        for name, t in self.visible():
            if name == "__o":
                continue
            if t.startswith("fn"):
                if self.rng.random() < 0.8:
                    ar = int(t[2:])
                    out.append(self.obs(("call", ("var", name), [("lit", self.rng.randint(0, 4)) for _ in range(ar)])))
            elif self.rng.random() < 0.6:
                out.append(self.obs(("var", name)))
        if self.rng.random() < 0.7:
            out.append(("expr", self.expr(self.rng.choice(["int", "str", "bool", "arr"]), 2)))
        return flatten(out)


def flatten(stmts):
    """loop_stmt returns [pre, loop] lists: splice them wherever they occur"""
    out = []
    for s in stmts:
        if isinstance(s, list):
            out.extend(flatten(s))
        elif s is None:
            continue
        else:
            out.append(fix_stmt(s))
    return out


def fix_block(b):
    return flatten(b)


def fix_expr(e):
    t = e[0]
    if t == "if":
        els = e[3]
        if isinstance(els, tuple):
            els = fix_expr(els)
        elif els is not None:
            els = fix_block(els)
        return ("if", fix_expr(e[1]), fix_block(e[2]), els)
    if t == "match":
        return ("match", fix_expr(e[1]), [(p, fix_block(b)) for p, b in e[2]])
    if t == "fn":
        return ("fn", e[1], fix_block(e[2])) + tuple(e[3:])
    if t == "bin":
        return ("bin", e[1], fix_expr(e[2]), fix_expr(e[3]))
    if t == "un":
        return ("un", e[1], fix_expr(e[2]))
    if t == "arr":
        return ("arr", [fix_expr(x) for x in e[1]])
    if t == "map":
        return ("map", [(fix_expr(k), fix_expr(v)) for k, v in e[1]])
    if t == "index":
        return ("index", fix_expr(e[1]), fix_expr(e[2]))
    if t == "assign":
        return ("assign", fix_expr(e[1]), fix_expr(e[2]))
    if t == "call":
        return ("call", fix_expr(e[1]), [fix_expr(a) for a in e[2]])
    return e


def fix_stmt(s):
    t = s[0]
    if t == "let":
        return ("let", s[1], fix_expr(s[2]))
    if t == "expr":
        return ("expr", fix_expr(s[1]))
    if t == "block":
        return ("block", fix_block(s[1]))
    if t == "fnstmt":
        return ("fnstmt", s[1], s[2], fix_block(s[3]))
    if t == "return":
        return ("return", None if s[1] is None else fix_expr(s[1]))
    if t == "while":
        return ("while", s[1], fix_expr(s[2]), fix_block(s[3]))
    if t == "loop":
        return ("loop", s[1], fix_block(s[2]))
    return s


def names_in(e, acc=None):
    acc = acc if acc is not None else set()
    if isinstance(e, tuple):
        if e and e[0] == "var":
            acc.add(e[1])
        for x in e:
            names_in(x, acc)
    elif isinstance(e, list):
        for x in e:
            names_in(x, acc)
    return acc


PRELUDE = "let __o = [];\n"


def random_program(rng, **kw):
    g = Gen(rng, **kw)
    return g.program()


def random_program_text(rng, illtyped=False):
    p = random_program(rng, illtyped=illtyped)
    text, _ = render(p)
    return PRELUDE + text


# ---------------------------------------------------------------------------
# witness shrinking (statement-level delta debugging)

def _blocks_of(s):
    """yield (getter, setter-producing-copy) pairs for nested statement lists of statement s"""
    t = s[0]
    out = []
    if t == "block":
        out.append((s[1], lambda b, s=s: ("block", b)))
    elif t == "fnstmt":
        out.append((s[3], lambda b, s=s: ("fnstmt", s[1], s[2], b)))
    elif t == "while":
        out.append((s[3], lambda b, s=s: ("while", s[1], s[2], b)))
    elif t == "loop":
        out.append((s[2], lambda b, s=s: ("loop", s[1], b)))
    elif t == "let" and s[2][0] == "fn":
        out.append((s[2][1 + 1], lambda b, s=s: ("let", s[1], ("fn", s[2][1], b))))
    elif t == "expr" and s[1][0] == "if":
        e = s[1]
        out.append((e[2], lambda b, e=e: ("expr", ("if", e[1], b, e[3]))))
        if e[3] is not None and not isinstance(e[3], tuple):
            out.append((e[3], lambda b, e=e: ("expr", ("if", e[1], e[2], b))))
    return out


def shrink(prog, still_fails, budget=150):
    """greedy removal of statements (top level first, then inside nested blocks)"""
    state = {"n": budget}

    def attempt(p):
        if state["n"] <= 0:
            return False
        state["n"] -= 1
        try:
            return still_fails(p)
        except Exception:
            return False

    def shrink_list(stmts, rebuild):
        """stmts: list; rebuild(list)->program ; returns the reduced list"""
        i = 0
        cur = list(stmts)
        while i < len(cur) and state["n"] > 0:
            cand = cur[:i] + cur[i + 1:]
            if attempt(rebuild(cand)):
                cur = cand
            else:
                i += 1
        # descend
        for i in range(len(cur)):
            for blk, mk in _blocks_of(cur[i]):
                def rb(b, i=i, mk=mk):
                    c2 = list(cur)
                    c2[i] = mk(b)
                    return rebuild(c2)
                nb = shrink_list(blk, rb)
                cur[i] = mk(nb)
        return cur
    return shrink_list(prog, lambda p: p)


# ---------------------------------------------------------------------------
# static well-formedness (what the compiler must accept): lexical scoping, loop context

def well_formed(prog):
    """True iff every name has a visible binding and every break/continue/return is in context"""
    try:
        _wf_block(prog, [set(["__o"])], [], False, top=True)
        return True
    except _Ill:
        return False


class _Ill(Exception):
    pass


_BUILTIN_NAMES = set(PURE_BUILTINS) | set(["puts", "format", "float", "char", "byte", "sort", "round", "tolower", "toupper",
                                              "encode_utf8", "decode_utf8", "print", "println"])


def _wf_block(stmts, scopes, loops, in_fn, top=False):
    if not top:
        scopes = scopes + [set()]
    for s in stmts:
        _wf_stmt(s, scopes, loops, in_fn)


def _visible(name, scopes):
    return any(name in sc for sc in scopes) or name in _BUILTIN_NAMES


def _wf_stmt(s, scopes, loops, in_fn):
    t = s[0]
    if t == "let":
        if s[2][0] == "fn":
            scopes[-1].add(s[1])
            _wf_expr(s[2], scopes, loops, in_fn)
        else:
            _wf_expr(s[2], scopes, loops, in_fn)
            scopes[-1].add(s[1])
    elif t == "expr":
        _wf_expr(s[1], scopes, loops, in_fn)
    elif t == "block":
        _wf_block(s[1], scopes, loops, in_fn)
    elif t == "fnstmt":
        scopes[-1].add(s[1])
        _wf_block(s[3], scopes + [set(s[2]) | set([s[1]])], [], True)
    elif t == "return":
        if not in_fn:
            raise _Ill()
        if s[1] is not None:
            _wf_expr(s[1], scopes, loops, in_fn)
    elif t == "while":
        _wf_expr(s[2], scopes, loops, in_fn)
        _wf_block(s[3], scopes, loops + [s[1]], in_fn)
    elif t == "loop":
        _wf_block(s[2], scopes, loops + [s[1]], in_fn)
    elif t in ("break", "continue"):
        if not loops:
            raise _Ill()
        if s[1] is not None and s[1] not in loops:
            raise _Ill()


def _wf_expr(e, scopes, loops, in_fn):
    t = e[0]
    if t == "lit":
        return
    if t == "var":
        if not _visible(e[1], scopes):
            raise _Ill()
        return
    if t in ("bin",):
        _wf_expr(e[2], scopes, loops, in_fn)
        _wf_expr(e[3], scopes, loops, in_fn)
    elif t == "un":
        _wf_expr(e[2], scopes, loops, in_fn)
    elif t == "arr":
        for x in e[1]:
            _wf_expr(x, scopes, loops, in_fn)
    elif t == "map":
        for k, v in e[1]:
            _wf_expr(k, scopes, loops, in_fn)
            _wf_expr(v, scopes, loops, in_fn)
    elif t == "index":
        _wf_expr(e[1], scopes, loops, in_fn)
        _wf_expr(e[2], scopes, loops, in_fn)
    elif t == "assign":
        _wf_expr(e[2], scopes, loops, in_fn)
        _wf_expr(e[1], scopes, loops, in_fn)
    elif t == "call":
        _wf_expr(e[1], scopes, loops, in_fn)
        for a in e[2]:
            _wf_expr(a, scopes, loops, in_fn)
    elif t == "fn":
        _wf_block(e[2], scopes + [set(e[1])], [], True)
    elif t == "if":
        _wf_expr(e[1], scopes, loops, in_fn)
        _wf_block(e[2], scopes, loops, in_fn)
        if e[3] is not None:
            if isinstance(e[3], tuple):
                _wf_expr(e[3], scopes, loops, in_fn)
            else:
                _wf_block(e[3], scopes, loops, in_fn)
    elif t == "match":
        _wf_expr(e[1], scopes, loops, in_fn)
        for pats, body in e[2]:
            _wf_block(body, scopes, loops, in_fn)
