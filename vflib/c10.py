"""C10 - map lookups are consistent with value equality.

Histories of map operations run on the real VM; every result is recorded
(unique values identify the write that a read observed). The checker replays
the history over an association list whose key equality is the
implementation's own `==`, evaluated in the same run, and additionally checks
the equalities the property names explicitly."""
import math

from . import core
from .core import Case
from .opmodel import Unspecified, values_equal
from .val import Arr, Builtin, Byte, Char, canon_dump, kind, lit, show

KEYS = [0, 1, -1, 2, 3, 1 << 53, 255,
        0.0, -0.0, 1.0, 2.0, 1.5, -1.0, 3.0, float(1 << 53), math.nan, math.inf,
        Byte(0), Byte(1), Byte(97), Byte(49),
        Char("a"), Char("1"), Char("é"),
        "", "a", "1", "1.0", "é", "true",
        True, False, None, Builtin("len"), Builtin("puts"),
        Arr([]), Arr([1]), Arr([1.0]), Arr([0.0]), Arr([-0.0]), Arr([1, 2]), Arr([1.0, 2.0]), Arr([1, 2.0]),
        Arr([Arr([1])]), Arr([Arr([1.0])]), Arr(["a"]), Arr([Char("a")]), Arr([None]), Arr([True]), Arr([1, "a"])]


def build(keys, ops):
    """ops: list of (kind, key_index, value) -> program text"""
    lines = ["let __o = []; let __e = [];"]
    for i, k in enumerate(keys):
        lines.append("let k%d = %s;" % (i, lit(k)))
    n = len(keys)
    for i in range(n):
        lines.append(" ".join("push(__e, k%d == k%d);" % (i, j) for j in range(n)))
    first = True
    for op in ops:
        if op[0] == "literal":
            lines.append("let m = map {%s};" % ", ".join("k%d: %d" % (ki, v) for ki, v in op[1]))
            first = False
            continue
        if first:
            lines.append("let m = map {};")
            first = False
        k = op[0]
        ki = op[1] if len(op) > 1 else None
        if k == "set":
            lines.append("push(__o, m[k%d] = %d);" % (ki, op[2]))
        elif k == "idx":
            lines.append("push(__o, m[k%d]);" % ki)
        elif k == "get":
            lines.append("push(__o, get(m, k%d));" % ki)
        elif k == "contains":
            lines.append("push(__o, contains(m, k%d));" % ki)
        elif k == "insert":
            lines.append("push(__o, insert(m, k%d, %d));" % (ki, op[2]))
        elif k == "len":
            lines.append("push(__o, len(m));")
    return "\n".join(lines)


def replay(n, E, ops):
    """association list with equality E -> (expected observations, errors_at or None)"""
    entries = []  # [key_index, value]

    def find(ki):
        for e in entries:
            if E[ki][e[0]]:
                return e
        return None
    out = []
    for op in ops:
        k = op[0]
        if k == "literal":
            for ki, v in op[1]:
                e = find(ki)
                if e:
                    e[1] = v
                else:
                    entries.append([ki, v])
            continue
        ki = op[1] if len(op) > 1 else None
        if k == "set":
            e = find(ki)
            if e:
                e[1] = op[2]
            else:
                entries.append([ki, op[2]])
            out.append(("i", op[2]))
        elif k == "idx":
            e = find(ki)
            if e is None:
                return out, True
            out.append(("i", e[1]))
        elif k == "get":
            e = find(ki)
            out.append(("i", e[1]) if e else ("null",))
        elif k == "contains":
            out.append(("bool", find(ki) is not None))
        elif k == "insert":
            e = find(ki)
            if e:
                out.append(("i", e[1]))
                e[1] = op[2]
            else:
                out.append(("null",))
                entries.append([ki, op[2]])
        elif k == "len":
            out.append(("i", len(entries)))
    return out, False


def run(chk):
    rng = chk.rng
    quick = chk.tier == "quick"
    chk.rule = ("all ordered key pairs from a %d-key domain through literal/index/get/contains/insert/len, plus random histories "
                "(<= 40 operations over <= 8 keys drawn to collide under ==); distinct = distinct (kind of k1, kind of k2, k1==k2) "
                "for pairs and distinct operation-kind sequences for histories" % len(KEYS))
    chk.assumptions = ["key equality in the oracle is the implementation's own == from the same run; 1==1.0, 0.0==-0.0 and "
                       "element-wise array equality are additionally required to be true",
                       "integers beyond 2^53 are mixed with floats only in maps of two keys (the stated equality is not transitive up there, so larger key sets are undecidable)"]
    chk.floor = 2000
    chk.rule += '; plus two-key maps of an integer beyond 2^53 and the float it equals, and equal-but-distinguishable values (1 / 1.0, equal arrays) re-inserted under one key'
    jobs = []   # (keys, ops, tag)
    vid = [100]

    def val():
        vid[0] += 1
        return vid[0]
    for i, k1 in enumerate(KEYS):
        for j, k2 in enumerate(KEYS):
            keys = [k1, k2]
            ops = [("insert", 0, val()), ("get", 1), ("contains", 1), ("len",), ("set", 1, val()), ("len",), ("get", 0),
                   ("insert", 0, val()), ("get", 1), ("insert", 1, val()), ("len",), ("contains", 0), ("idx", 0), ("idx", 1)]
            jobs.append((keys, ops, ("pair", kind(k1), kind(k2))))
            if (i * len(KEYS) + j) % 3 == 0:
                ops2 = [("literal", [(0, val()), (1, val())]), ("len",), ("get", 0), ("get", 1), ("idx", 1), ("idx", 0)]
                jobs.append((keys, ops2, ("literal-pair", kind(k1), kind(k2))))
    # integers beyond 2^53 next to the float they compare equal to: two keys only, so the non-transitivity of == up
    # there does not come into play, and "same entry iff ==" is decidable
    bigs = [(1 << 53) + 1, (1 << 53) + 2, (1 << 53) + 3, 1234567890123456789, (1 << 63) - 1, (1 << 63) - 2, (1 << 62) + 1, -(1 << 53) - 1,
            -(1 << 63) + 1, -(1 << 63), 9007199254740993, 4611686018427387905, (1 << 60) + 7]
    for n in bigs:
        for other in (float(n), n, max(n - 1, -(1 << 63)), float(n - 1), Arr([float(n)])):
            for keys in ([n, other], [other, n], [Arr([n]), Arr([other])] if not isinstance(other, Arr) else [Arr([n]), other]):
                ops = [("insert", 0, val()), ("get", 1), ("contains", 1), ("len",), ("set", 1, val()), ("len",), ("get", 0),
                       ("insert", 0, val()), ("idx", 0), ("len",)]
                jobs.append((keys, ops, ("big-pair", kind(keys[0]), kind(keys[1]))))
                jobs.append((keys, [("literal", [(0, val()), (1, val())]), ("len",), ("get", 0), ("get", 1)], ("big-literal-pair", kind(keys[0]), kind(keys[1]))))
    groups = [[0, 0.0, -0.0, Byte(0), False, None, "", Arr([]), Arr([0.0]), Arr([-0.0])],
              [1, 1.0, Byte(1), True, "1", Char("1"), Arr([1]), Arr([1.0]), Byte(49)],
              [2, 2.0, Arr([1, 2]), Arr([1.0, 2.0]), Arr([1, 2.0]), 3, 3.0],
              ["a", Char("a"), Byte(97), Arr(["a"]), Arr([Char("a")]), 97, 97.0],
              [math.nan, 1.5, math.inf, -1, -1.0, Builtin("len"), Builtin("puts"), Arr([Arr([1])]), Arr([Arr([1.0])])]]
    n_hist = 1500 if quick else 60000
    for _ in range(n_hist):
        g = rng.choice(groups)
        nk = rng.randint(2, min(8, len(g)))
        keys = rng.sample(g, nk)
        if rng.random() < 0.3:
            keys[rng.randrange(nk)] = rng.choice(KEYS)
        ops = []
        if rng.random() < 0.4:
            ops.append(("literal", [(rng.randrange(nk), val()) for _ in range(rng.randint(1, 5))]))
        for _ in range(rng.randint(3, 40)):
            k = rng.choice(["set", "get", "contains", "insert", "insert", "len", "idx", "get"])
            if k == "len":
                ops.append(("len",))
            elif k in ("set", "insert"):
                ops.append((k, rng.randrange(nk), val()))
            else:
                ops.append((k, rng.randrange(nk)))
        jobs.append((keys, ops, ("history",) + tuple(o[0] for o in ops[:6])))
    cases = [Case("h%d" % i, build(keys, ops), {"globals": "__o,__e", "steps": 200000}) for i, (keys, ops, _) in enumerate(jobs)]
    # values that compare equal but can be told apart (1 and 1.0, two arrays with the same contents): a lookup returns the
    # value most recently stored, not an earlier equal one
    EQV = [
        ("let m = map {}; push(__o, insert(m, 7, 1)); push(__o, insert(m, 7, 1.0)); push(__o, get(m, 7)); push(__o, insert(m, 7.0, 1)); push(__o, m[7]); m[7] = 1.0; push(__o, get(m, 7.0)); push(__o, len(m));",
         [("null",), ("i", 1), ("f", 1.0), ("f", 1.0), ("i", 1), ("f", 1.0), ("i", 1)]),
        ("let a = [1, 2]; let b = [1, 2]; let m = map {\"k\": a}; m[\"k\"] = b; push(b, 3); push(__o, len(m[\"k\"])); insert(m, \"k\", a); push(a, 9); push(a, 9); push(__o, len(get(m, \"k\")));",
         [("i", 3), ("i", 4)]),
        ("let m = map {1: 2, 1.0: 2.0}; push(__o, get(m, 1)); push(__o, len(m)); let n = map {2.0: 5.0, 2: 5}; push(__o, n[2.0]); push(__o, len(n));",
         [("f", 2.0), ("i", 1), ("i", 5), ("i", 1)]),
        ("let m = map {}; let i = 0; while i < 6 { if i % 2 == 0 { m[\"x\"] = 3; } else { m[\"x\"] = 3.0; } push(__o, m[\"x\"]); i = i + 1; }",
         [("i", 3), ("f", 3.0), ("i", 3), ("f", 3.0), ("i", 3), ("f", 3.0)]),
        ("let m = map {[1]: 0.0}; m[[1.0]] = 0; push(__o, m[[1]]); insert(m, [1], -0.0); push(__o, get(m, [1.0])); push(__o, len(m));",
         [("i", 0), ("f", -0.0), ("i", 1)]),
        ("let inner1 = map {1: 1}; let inner2 = map {1: 1}; let m = map {0: inner1}; m[0] = inner2; insert(inner2, 2, 2); push(__o, len(m[0])); push(__o, len(inner1));",
         [("i", 2), ("i", 1)]),
    ]
    # a key object that is changed between two lookups through it (the stored keys are other objects), and keys nested deeper
    # than any sensible recursion bound used many times before ordinary keys are looked up again
    EQV += [
        ("let m = map {}; m[[10, 20]] = \"short\"; m[[10, 20, 30]] = \"long\"; let k = [10, 20]; push(__o, get(m, k)); push(k, 30); push(__o, get(m, k)); push(__o, contains(m, k)); "
         "pop(k); pop(k); push(__o, get(m, k)); push(__o, contains(m, k)); push(k, 20); push(__o, m[k]);", ["short", "long", True, None, False, "short"]),
        ("let m = map {[1]: 1, [2]: 2, [1, 2]: 12}; let k = [1]; push(__o, m[k]); k[0] = 2; push(__o, m[k]); k[0] = 1; push(k, 2); push(__o, get(m, k)); sort(k); push(__o, contains(m, k));", [1, 2, 12, True]),
        ("let inner = [5]; let k = [inner, 6]; let m = map {[[5], 6]: \"a\", [[7], 6]: \"b\"}; push(__o, get(m, k)); inner[0] = 7; push(__o, get(m, k)); push(__o, contains(m, [[5], 6]));", ["a", "b", True]),
        ("let m = map {[1, 2]: \"x\", [3]: \"y\", \"s\": \"z\"}; let d = [0]; let i = 0; while i < 100 { d = [d]; i = i + 1; } let j = 0; while j < 90 { insert(m, d, j); contains(m, d); get(m, [d]); j = j + 1; } "
         "push(__o, get(m, [1, 2])); push(__o, contains(m, [3])); push(__o, m[[1, 2]]); push(__o, get(m, d)); push(__o, len(m));", ["x", True, "x", 89, 4]),
    ]
    for k, (prog, exp) in enumerate(EQV):
        cases.append(Case("q%d" % k, "let __o = []; " + prog, {"globals": "__o", "steps": 100000}))
    res = core.run_cases(cases)
    for k, (prog, exp) in enumerate(EQV):
        r = res.get("q%d" % k)
        if r is None:
            chk.inconc("missing result")
            continue
        chk.observed(("equal-values", k))
        got = list(canon_dump(r["globals"]["__o"])[1]) if r.get("outcome") == "ok" and "globals" in r else None

        from .val import canon
        exp = [canon((None if x[0] == "null" else x[1]) if isinstance(x, tuple) else x) for x in exp]
        if got is None or got != exp:
            chk.violation("lookup|equal-but-distinct-values|%d" % k, "%s: expected %s, observed %s (%s)" % (
                prog, [show(x) for x in exp], [show(x) for x in got] if got is not None else None, r.get("rt") or r.get("outcome")), {"src": prog})
    for i, (keys, ops, tag) in enumerate(jobs):
        r = res.get("h%d" % i)
        if r is None:
            chk.inconc("missing result")
            continue
        oc = r.get("outcome")
        if oc in ("parse_errors", "compile_error"):
            chk.inconc("generated program rejected")
            continue
        if oc == "panic":
            chk.violation("panic|" + core.panic_site_sig(r["panic"]["loc"], r["panic"]["msg"]),
                          "map history panics: %s" % r["panic"]["msg"], {"src": cases[i].src, "r": r})
            continue
        n = len(keys)
        e = canon_dump(r["globals"].get("__e"))
        if e[0] != "a" or len(e[1]) != n * n:
            chk.inconc("equality matrix incomplete (%s)" % oc)
            continue
        E = [[e[1][a * n + b] == ("bool", True) for b in range(n)] for a in range(n)]
        # the equalities the property names must themselves hold (and == must agree with the stated model)
        bad_eq = None
        for a in range(n):
            for b in range(n):
                try:
                    m = values_equal(keys[a], keys[b])
                except Unspecified:
                    continue
                if m != E[a][b]:
                    bad_eq = (a, b, m)
        if bad_eq:
            a, b, m = bad_eq
            chk.violation("equality|kinds=%s,%s|expected=%s" % (kind(keys[a]), kind(keys[b]), m),
                          "%s == %s evaluates to %s, the property requires %s" % (lit(keys[a]), lit(keys[b]), E[a][b], m),
                          {"keys": [lit(k) for k in keys]})
            continue
        exp, err = replay(n, E, ops)
        got = canon_dump(r["globals"].get("__o"))[1]
        chk.observed(tag + ((E[0][1],) if tag[0] != "history" else ()))
        if i % 797 == 0:
            chk.sample({"keys": [lit(k) for k in keys], "ops": [list(o) for o in ops[:12]], "observed": [show(x) for x in got[:12]]})
        ok = list(got) == exp and ((oc == "rt_error") == err)
        if not ok:
            # first differing operation
            idx = next((x for x in range(min(len(got), len(exp))) if got[x] != exp[x]), min(len(got), len(exp)))
            obs_ops = [o for o in ops if o[0] != "literal"]
            opk = obs_ops[idx][0] if idx < len(obs_ops) else "end"
            kk = obs_ops[idx][1] if idx < len(obs_ops) and len(obs_ops[idx]) > 1 else None
            kinds = sorted(set(kind(k) for k in keys))
            sig = "lookup|op=%s|key=%s|keys=%s" % (opk, kind(keys[kk]) if kk is not None else "-", ",".join(kinds))
            has_nan = any(isinstance(k, float) and k != k for k in keys)
            if has_nan:
                # replay once more with NaN keys found by identity (same variable): is that the only difference?
                E2 = [row[:] for row in E]
                for a in range(n):
                    if isinstance(keys[a], float) and keys[a] != keys[a]:
                        E2[a][a] = True
                exp2, err2 = replay(n, E2, ops)
                if list(got) == exp2 and ((oc == "rt_error") == err2):
                    sig = "lookup|nan-key-found-by-identity"
            chk.violation(sig,
                          "operation #%d (%s on %s) returned %s, an association list keyed by == gives %s; keys %s" % (
                              idx, opk, lit(keys[kk]) if kk is not None else "-",
                              show(got[idx]) if idx < len(got) else ("runtime error '%s'" % r.get("rt", {}).get("msg")),
                              show(exp[idx]) if idx < len(exp) else ("runtime error" if err else "end"),
                              [lit(k) for k in keys]),
                          {"src": cases[i].src, "expected": [show(x) for x in exp], "expected_error": err,
                           "observed": [show(x) for x in got], "outcome": oc, "rt": r.get("rt")})
