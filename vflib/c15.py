"""C15 - reading packet fields never alters the bytes written back out.

Oracle: identity. Every frame (structure-aware generator, every truncation of
it) is read from a pcap file by a script that performs a random sequence of
property reads and then writes the packet with pcap_write and write(); the
records written must equal the records read. Filter-mode output is checked
end to end through the real binary with $n accesses."""
import os
import shutil
import struct

from . import core, pkt, pktscript
from .core import Case
from .val import lit

BATCH = 12


def shape_of(frame, desc, deepest, cut):
    layers = pkt.decode(frame)
    last = layers[-1][0] if layers else "none"
    return (desc, deepest, last, "cut" if cut else "full")


def build_cases(rng, work, n_frames, few_cuts):
    """-> (probe cases, meta): batches of frames and their truncations, each read by a random no-raise read sequence and written back"""
    items = []     # (frame, desc, cut)
    for _ in range(n_frames):
        fr, desc = pkt.rand_frame(rng)
        items.append((fr, desc, False))
        cuts = list(range(len(fr)))
        if few_cuts:
            cuts = rng.sample(cuts, min(len(cuts), 14))
        for c in cuts:
            items.append((fr[:c], desc, True))
    # frames larger than the default snaplen of a newly written file (loopback / offloaded captures)
    for _ in range(max(2, n_frames // 60)):
        fr, desc = pkt.rand_frame(rng, well_formed=True)
        big = fr + pkt.rand_bytes(rng, 16) * rng.choice([4100, 4200, 4400])
        items.append((big[:rng.choice([65535, 65536, 65537, 65550, 70000])], desc, False))
    rng.shuffle(items)
    batches = [items[i:i + BATCH] for i in range(0, len(items), BATCH)]
    cases = []
    meta = {}
    for bi, batch in enumerate(batches):
        inp = os.path.join(work, "in%d.pcap" % bi)
        # wire length >= captured length (snapped records): the record header must survive reads as well
        recs = [(1000 + k, 7 * k, fr, None, len(fr) + rng.choice([0, 0, 1, 40, 1454, 70000])) for k, (fr, _, _) in enumerate(batch)]
        longest = max(len(fr) for fr, _, _ in batch)
        snap = rng.choice([65535, 262144, longest]) if longest <= 65535 else rng.choice([262144, longest])
        with open(inp, "wb") as f:
            f.write(pkt.pcap_file(recs, snaplen=snap, magic=rng.choice([pkt.MAGIC_US, pkt.MAGIC_NS])))
        outp = os.path.join(work, "out%d.pcap" % bi)
        rawp = os.path.join(work, "raw%d.bin" % bi)
        lines = ["let __o = [];", "let f = pcap_open(%s);" % lit(inp), "let o = pcap_open(%s, \"w\");" % lit(outp),
                 "let rw = open(%s, \"w\");" % lit(rawp), "let ps = pcap_read_all(f);", "push(__o, len(ps));"]
        deep = []
        for k, (fr, desc, cut) in enumerate(batch):
            v = "p%d" % k
            lines.append("let %s = ps[%d];" % (v, k))
            rl, deepest = pktscript.random_reads(rng, fr, v, rng.randint(0, 12))
            deep.append(deepest)
            lines += rl
            lines.append("pcap_write(o, %s); write(rw, %s); push(__o, %d);" % (v, v, k))
        lines.append("flush(rw);")
        cid = "b%d" % bi
        cases.append(Case(cid, "\n".join(lines), {"globals": "__o", "steps": 2000000}))
        meta[cid] = (batch, recs, outp, rawp, deep)
    return cases, meta


def run(chk):
    rng = chk.rng
    quick = chk.tier == "quick"
    chk.rule = ("structure-aware random frames (Ethernet, VLAN, QinQ, IPv4 with every IHL and options, IPv6, IPv6-in-IPv4, TCP with "
                "every data offset, UDP, unknown types, inconsistent length fields) and every truncation of them x random read "
                "sequences (0..12 reads: packet fields, layer fields, payload, inner layers by matching and by contradicting "
                "names, formatting); written back with pcap_write and write(); plus filter-mode output with $n reads through the "
                "real binary; distinct = distinct (layer stack, deepest layer touched, last decodable layer, truncated?)")
    chk.assumptions = ["reads are generated from a model of the layer cache so that no read raises by construction; a read that raises "
                       "anyway is reported", "$n is used up to $10 (deeper indices are a runtime error by design)"]
    chk.floor = 3000
    chk.rule += '; plus frames above 65535 bytes and records whose wire length differs from the captured length'
    work = core.scratch_dir()
    try:
        cases, meta = build_cases(rng, work, 250 if quick else 6000, quick)
        res = core.run_cases(cases)
        for cid, (batch, recs, outp, rawp, deep) in meta.items():
            r = res.get(cid)
            if r is None:
                chk.inconc("missing result")
                continue
            oc = r.get("outcome")
            src = next(c.src for c in cases if c.id == cid) if oc != "ok" else None
            done = 0
            if "globals" in r and r["globals"].get("__o"):
                done = max(0, len(r["globals"]["__o"]["a"]) - 1)
            if oc in ("panic", "rt_error", "died", "hang"):
                culprit = batch[done] if done < len(batch) else None
                what = r.get("panic", {}).get("msg") or r.get("rt", {}).get("msg") or oc
                if oc == "panic":
                    sig = "panic|" + core.panic_site_sig(r["panic"]["loc"], r["panic"]["msg"])
                else:
                    sig = "read-raises|%s|%s" % (oc, core.msg_class(what)[:50])
                chk.violation(sig, "reading fields of a %d-byte frame (%s) ends the script: %s" % (
                    len(culprit[0]) if culprit else -1, culprit[1] if culprit else "?", what),
                    {"frame_hex": culprit[0].hex() if culprit else None, "src": core.short(src, 3000), "result": {k: v for k, v in r.items() if k != "globals"}})
            elif oc != "ok":
                chk.inconc("batch outcome %s" % oc)
                continue
            try:
                hdr, out_recs, _ = pkt.parse_pcap(open(outp, "rb").read())
                raw = open(rawp, "rb").read()
            except OSError:
                chk.inconc("output files missing")
                continue
            pos = 0
            for k in range(done):
                fr, desc, cut = batch[k]
                want = recs[k]
                chk.observed(shape_of(fr, desc, deep[k], cut))
                if len(chk.samples) < 8 and k == 0:
                    chk.sample({"frame_hex": fr.hex()[:120], "layers": [l[0] for l in pkt.decode(fr)], "deepest_touched": deep[k]})
                exp_rec = (want[0], want[1], len(fr), want[4], fr)
                got = out_recs[k] if k < len(out_recs) else None
                exp_raw = pkt.pcap_record(want[0], want[1], fr, None, want[4])
                got_raw = raw[pos:pos + len(exp_raw)] if k == 0 or True else None
                bad = None
                if got != exp_rec:
                    bad = "pcap_write"
                # raw stream: records are concatenated, locate by expected position only while everything matched so far
                if raw[pos:pos + len(exp_raw)] != exp_raw:
                    bad = (bad + "+write") if bad else "write"
                    # resynchronise on the record actually written (its header is intact in all observed failures)
                    nxt = raw.find(struct.pack("<II", (want[0] + 1) & 0xFFFFFFFF, (7 * (k + 1)) & 0xFFFFFFFF), pos + 1)
                    pos = nxt if nxt >= 0 else len(raw)
                else:
                    pos += len(exp_raw)
                if bad:
                    layers = [l[0] for l in pkt.decode(fr)]
                    chk.violation("altered|%s|%s|deepest=%s" % (bad, ">".join(layers[-2:]), deep[k]),
                                  "bytes written by %s differ from the %d captured bytes after read-only accesses (layers %s, deepest touched %s): wrote %s" % (
                                      bad, len(fr), layers, deep[k], (got[4].hex() if got else None)),
                                  {"frame_hex": fr.hex(), "written_hex": got[4].hex() if got else None, "layers": layers,
                                   "reads": "see src", "src": core.short(next(c.src for c in cases if c.id == cid), 4000)})
        # ---- filter mode, end to end: "@ { reads } @ true" must reproduce the input records
        n_f = 60 if quick else 1200
        for t in range(n_f):
            frames = []
            for _ in range(rng.randint(1, 6)):
                fr, desc = pkt.rand_frame(rng)
                if rng.random() < 0.4:
                    fr = fr[:rng.randrange(len(fr) + 1)]
                frames.append((fr, desc))
            recs = [(5 + k, k, fr) for k, (fr, _) in enumerate(frames)]
            data = pkt.pcap_file(recs)
            reads = []
            for _ in range(rng.randint(1, 8)):
                n = rng.randint(0, 10)
                reads.append(rng.choice(["let a%d = $%d;" % (len(reads), n), "format(\"{}\", $%d);" % n, "$%d;" % n,
                                         "if $%d { 1 } else { 2 };" % n]))
            props = ["if $1 { ($1).src; ($1).type; ($1).payload; }", "($0).caplen; ($0).payload;", "format(\"{}\", $0);"]
            script = "@ true {\n%s\n%s\n}\n@ true\n" % ("\n".join(reads), rng.choice(props) if all(len(f) >= 14 for f, _ in frames) else "")
            path = os.path.join(work, "flt.p2")
            with open(path, "w") as f:
                f.write(script)
            inp = os.path.join(work, "flt.pcap")
            with open(inp, "wb") as f:
                f.write(data)
            with open(inp, "rb") as fi:
                rr = core.run_binary([path], stdin_file=fi, release=(t % 2 == 1), timeout=30)
            if rr["timeout"]:
                chk.inconc("filter run timed out")
                continue
            if core.crashed(rr):
                chk.violation("filter-crash|" + core.msg_class(rr["err"].decode("utf-8", "replace")[-80:]),
                              "filter-mode reads crash the interpreter", {"script": script, "frames": [f.hex() for f, _ in frames],
                                                                         "stderr": rr["err"].decode("utf-8", "replace")[-400:]})
                continue
            hdr, out_recs, _ = pkt.parse_pcap(rr["out"])
            want = [(s, u, len(fr), len(fr), fr) for (s, u, fr) in recs]
            err = rr["err"].decode("utf-8", "replace")
            chk.observed(("filter", tuple(d for _, d in frames)[:2], "Runtime error" in err))
            if "Runtime error" in err:
                chk.violation("filter-read-raises|" + core.msg_class(err.strip().split("\n")[-1])[:60],
                              "read-only $n accesses raise in filter mode: %s" % err.strip().split("\n")[-1],
                              {"script": script, "frames": [f.hex() for f, _ in frames]})
                continue
            if out_recs != want:
                k = next((i for i in range(min(len(out_recs), len(want))) if out_recs[i] != want[i]), min(len(out_recs), len(want)))
                fr = frames[k][0] if k < len(frames) else b""
                chk.violation("altered|filter-output|" + ">".join(l[0] for l in pkt.decode(fr)[-2:]),
                              "filter-mode output record %d differs from the captured bytes (%d records out, %d in)" % (k, len(out_recs), len(want)),
                              {"script": script, "frame_hex": fr.hex(), "written_hex": out_recs[k][4].hex() if k < len(out_recs) else None})
        # ---- IEEE 802.3 frames (length field, LLC / SNAP header) in front of an IP packet, read with every $n and written
        inner4 = pkt.ipv4(b"\x0a\0\0\1", b"\x0a\0\0\2", 17, pkt.udp(5, 6, b"snap-data"))
        inner6 = pkt.ipv6(bytes(16), bytes(15) + b"\1", 17, pkt.udp(5, 6, b"snap-data"))
        mac = pkt.rand_bytes(rng, 12)
        snaps = []
        for body, code in ((inner4, b"\x08\x00"), (inner6, b"\x86\xdd"), (b"arp-like-bytes" * 2, b"\x08\x06"), (inner4, b"\x08\x01")):
            llc = b"\xaa\xaa\x03\x00\x00\x00" + code + body
            for ln in (len(llc), 1500, 0, 46):
                snaps.append(pkt.eth(mac[:6], mac[6:], ln, llc))
        snaps.append(pkt.eth(mac[:6], mac[6:], 38, b"\x42\x42\x03" + bytes(35)))            # plain LLC (spanning tree)
        snaps.append(pkt.eth(mac[:6], mac[6:], pkt.ET_VLAN, pkt.vlan(1, 0, 9, 60, b"\xaa\xaa\x03\x00\x00\x00\x08\x00" + inner4)))
        sdata = pkt.pcap_file([(k + 1, k, fr) for k, fr in enumerate(snaps)])
        for si, script in enumerate(["@ !is_error($2) || $2 == null || true\n", "@ true { $3; $2; $4; format(\"{}\", $2); }\n@ true\n", "@ $3 != null || true\n", "@ true { let a = $2; let b = $10; }\n@ true\n"]):
            path = os.path.join(work, "snap.p2")
            with open(path, "w") as f:
                f.write(script)
            rr = core.run_binary([path], stdin_data=sdata, release=(si % 2 == 1), timeout=30)
            if rr["timeout"]:
                chk.inconc("filter run timed out")
                continue
            chk.observed(("802.3-frames", si))
            if core.crashed(rr):
                chk.violation("filter-crash|802.3", "filter-mode reads of 802.3 frames crash the interpreter", {"script": script, "stderr": rr["err"].decode("utf-8", "replace")[-300:]})
                continue
            hdr, out_recs, rest = pkt.parse_pcap(rr["out"])
            ok = hdr is not None and not rest and len(out_recs) == len(snaps) and all(r_[4] == snaps[r_[0] - 1] and r_[2] == len(r_[4]) for r_ in out_recs)
            if not ok:
                badk = next((r_[0] for r_ in out_recs if r_[0] - 1 < len(snaps) and r_[4] != snaps[r_[0] - 1]), None)
                chk.violation("altered|filter-output|802.3", "802.3 / LLC / SNAP frames read with $n in filter mode (%r): %d of %d records come out, record %s differs from the captured bytes" % (
                    script, len(out_recs), len(snaps), badk), {"script": script, "stderr": rr["err"].decode("utf-8", "replace")[-200:]})
        # ---- a write of a decoded packet that fails leaves no trace in what later writes of decoded packets produce
        src3 = os.path.join(work, "iso-src.pcap")
        frs = [pkt.rand_frame(rng, well_formed=True)[0] for _ in range(4)]
        with open(src3, "wb") as f:
            f.write(pkt.pcap_file([(k + 1, k, fr) for k, fr in enumerate(frs)]))
        good = os.path.join(work, "iso-good.pcap")
        raw = os.path.join(work, "iso-good.bin")
        setup = ["let ps = pcap_read_all(pcap_open(%s)); let i = 0; while i < len(ps) { ps[i].eth; ps[i].eth.type; i = i + 1; }" % lit(src3)]
        probes = ["let o = pcap_open(%s, \"w\"); let w = open(%s, \"w\"); let k = 0; while k < len(ps) { pcap_write(o, ps[k]); write(w, ps[k]); k = k + 1; } flush(w); puts(len(ps));" % (lit(good), lit(raw))]
        iso = []
        for tag, failing in (("reader-handle", ["let rd = pcap_open(%s); puts(is_error(pcap_write(rd, ps[1])));" % lit(src3)]),
                             ("full-device", ["let fd = pcap_open(\"/dev/full\", \"w\"); let j = 0; while j < 400 { if is_error(pcap_write(fd, ps[j % 4])) { break; } j = j + 1; } puts(j < 400);"]),
                             ("write-to-reader", ["puts(is_error(write(open(%s), ps[2])));" % lit(src3)]),
                             ("full-device-write", ["let ff = open(\"/dev/full\", \"w\"); let j = 0; while j < 400 { if is_error(write(ff, ps[j % 4])) { break; } j = j + 1; } flush(ff);"])):
            iso.append((tag, setup, failing, probes, [good, raw]))
        core.isolation_after_errors(chk, "serialise", iso)
    finally:
        shutil.rmtree(work, ignore_errors=True)
