"""C07 - statements leave the operand stack balanced so loops run in constant stack.

Monitor (inside the probe, fed by the VM step hook):
 (i)  program-point height invariant: for a given function, sp-bp observed at a given ip is the
      same on every visit (what makes a loop run in constant stack);
 (ii) the main frame's height is 0 at every top-level statement boundary (boundaries come from
      the compiler hook);
 (iii) a program without recursion never stops with "Stack overflow!", whatever its iteration count.
Workload: loop bodies over the whole expression grammar, incl. break/continue (plain and
labelled) in statement position, in operand positions with nothing pending, and in operand
positions with pending operands; each body run for 3, 100 and 10^4 iterations; plus the
generator's recursion-free programs."""
from . import core, gen
from .core import Case

COND = ["i % 3 == 0", "i % 2 == 1", "i > 1", "true", "i == 2"]

# {C} condition, {K} break/continue [label], value expressions use i / a / f
CLEAN_STMTS = [
    "if {C} {{ {K}; }}",
    "if {C} {{ {K}; }} else {{ 1; }}",
    "if {C} {{ let q = 1; {K}; }} else if i > 100 {{ 2 }} else {{ 3 }};",
    "match i % 4 {{ 0 => {{ {K}; }}, 1 => {{ 5 }}, _ => {{ }} }};",
    "match i % 3 {{ 0 | 1 => 1, _ => {{ if {C} {{ {K}; }} 2 }} }};",
    "(if {C} {{ {K}; }} else {{ 1 }}) + 2;",
    "[if {C} {{ {K}; }} else {{ 1 }}, 2, 3];",
    "match (if {C} {{ {K}; }} else {{ 1 }}) {{ 1 => 2, _ => 3 }};",
    "i > 0 && (if {C} {{ {K}; }} else {{ true }});",
    "i < 0 || (if {C} {{ {K}; }} else {{ true }});",
    "let w = if {C} {{ {K}; }} else {{ 1 }};",
    "a[0] = i; if {C} {{ {K}; }}",
    "{{ let z = i * 2; if z > 2 {{ {K}; }} }}",
    "f(i); if {C} {{ {K}; }} f(i + 1);",
    "1 + 2 * i; [1, 2, i]; map {{1: i}}; a[0]; f(i); -i; !i; i && 1; i || 2; if i {{ 1 }} else {{ 2 }}; match i {{ 1 => 1, _ => 2 }};",
    "let s = \"x\" + \"y\"; let t = [s, s]; let u = map {{s: t}}; len(t);",
    "if i % 2 == 0 {{ }} else {{ }}; match i {{ 0 => {{ }}, _ => {{ let q = 1; }} }}; if i {{ {{ 1 }} }};",
    # match over every kind of literal pattern (one value each), alternatives, ranges, hits and misses
    "match byte(97 + i % 4) {{ b'a' | b'e' => 1, b'b' => {{ 2 }}, _ => 3 }}; match byte(i % 3) {{ b'a'..b'z' => 1, _ => {{ }} }};",
    "match char(97 + i % 4) {{ 'a' | 'e' | 'i' => 1, 'b'..='c' => {{ 2 }}, _ => 3 }}; match 'q' {{ 'a' => 1, 'b' => 2, 'c' => 3 }};",
    "match str(i % 3) {{ \"0\" | \"1\" => 1, \"2\" => {{ }}, _ => 3 }}; match \"zz\" {{ \"a\" => 1, \"b\" | \"c\" | \"d\" => 2 }};",
    "match i % 2 == 0 {{ true => 1, false => {{ 2 }} }}; match true {{ false => 0 }}; match i {{ 1 | 2 | 3 | 4 | 5 | 6 | 7 | 8 => 1, 9..20 | 30..=40 => 2, _ => 3 }};",
    "match null {{ _ => {{ }} }}; match [i] {{ _ => 1 }}; match i * 1.5 {{ _ => 2 }};",
    "let mm = match byte(i % 2) {{ b'a' => {{ if {C} {{ {K}; }} 1 }}, _ => 2 }};",
    # logical operators nested inside operands of other logical operators, with operands pending around them
    "let on = i % 2 == 0; let odd = i % 3 == 0; let v1 = on && 10 + (odd && 7 || 0); let v2 = [1, on && (odd && 2), 3]; f(on && 1 + (odd && 2 || 0 && 5));",
    "let p = i % 2; let q = i % 5; let r1 = (p && q) || (q && (p || 3 + (q && p))); let r2 = !(p && 1 + (q || 2) * (p && 4)); a[(p || 0) && (q && 1)];",
    "let on = i % 2 == 0; let t3 = on && f(1 + (on && 2)) && [on && 1, (on || 2) && 3][1] && map {{1: on && (i && 2)}};",
    # a loop written inside a block that is itself an operand, left through break / continue of that inner loop only
    "let x1 = 1 + if i % 2 == 0 {{ let n = 0; while true {{ n = n + 1; if n >= 3 {{ break; }} }} n }} else {{ 0 }};",
    "let x2 = [7, if true {{ let n = 0; loop {{ n = n + 1; if n < 3 {{ continue; }} break; }} n }}, 9]; f(2 * match i % 2 {{ 0 => {{ let m = 0; while m < 2 {{ m = m + 1; if m == 1 {{ continue; }} }} m }}, _ => 1 }});",
    "let x3 = f(1 + if {C} {{ let n = 0; while n < 4 {{ n = n + 1; if n == 2 {{ break; }} }} n }} else {{ 5 }}) + 1;",
    "map {{i % 7: 1, i % 5: 2, 1: 3, 1.0: 4}}; map {{1: 1, 1: 2, 1: 3}}; [map {{\"k\": i, \"k\": i}}, 1];",
    # layer expressions (null without a current packet) and calls of functions that end without a value
    "$0; $1; $0;",
    "let k = 2; $k; ($1); $k;",
    "$0; $1; let k = 2; $k; ($1); [$0, $1, $k]; f($2); if $3 {{ 1 }}; $0 == null && $1 == null;",
    "nop(); endlet(i); endwhile(i); endblock(i); endif(i); 1 + len([nop()]); [nop(), endlet(1), endwhile(2)]; f(endblock(3));",
    "if {C} {{ nop(); {K}; }} endlet($1); let w = [endwhile(i), $0];",
]
DIRTY_STMTS = [
    "1 + if {C} {{ {K}; }} else {{ 2 }};",
    "let w = 1 + if {C} {{ {K}; }} else {{ 2 }};",
    "f(if {C} {{ {K}; }} else {{ 3 }});",
    "[1, if {C} {{ {K}; }} else {{ 3 }}];",
    "map {{1: if {C} {{ {K}; }} else {{ 2 }}}};",
    "a[if {C} {{ {K}; }} else {{ 0 }}];",
    "(if {C} {{ {K}; }} else {{ 1 }}) < 2;",
    "1 + match i {{ 0 => 1, _ => {{ if {C} {{ {K}; }} 2 }} }};",
    "f(1 + (if {C} {{ {K}; }} else {{ 1 }}));",
    "a[0] = if {C} {{ {K}; }} else {{ 0 }};",
]

LOOPS = [
    ("while", "let i = 0; while i < {N} {{ i = i + 1; {BODY} }}"),
    ("loop", "let i = 0; loop {{ if i >= {N} {{ break; }} i = i + 1; {BODY} }}"),
    ("labelled", "let i = 0; outer: while i < {N} {{ i = i + 1; let j = 0; while j < 2 {{ j = j + 1; {BODY} }} }}"),
    ("nested", "let k = 0; while k < 3 {{ k = k + 1; let i = 0; while i < {N} {{ i = i + 1; {BODY} }} }}"),
    ("in-fn", "fn run() {{ let i = 0; while i < {N} {{ i = i + 1; {BODY} }} i }} run(); run();"),
    # loop conditions built from the logical operators: the loop ends through the left or through the right operand
    ("while-and-left", "let i = 0; while i < {N} && a[1] > 0 {{ i = i + 1; {BODY} }}"),
    ("while-and-right", "let i = 0; while a[1] > 0 && i < {N} {{ i = i + 1; {BODY} }}"),
    ("while-or", "let i = 0; while i < {N} || a[1] < 0 {{ i = i + 1; {BODY} }}"),
    ("nested-while-and", "let k = 0; while k < 3 {{ k = k + 1; let i = 0; while i < {N} && k > 0 {{ i = i + 1; {BODY} }} }}"),
    ("in-fn-while-and", "fn run() {{ let k = 0; while k < 3 {{ k = k + 1; let i = 0; while i < {N} && true {{ i = i + 1; {BODY} }} }} k }} run(); run();"),
    ("while-value-cond", "let i = 0; let n = {N}; while n {{ n = n - 1; i = i + 1; {BODY} }}"),
]
PRE = ("let a = [0, 1]; fn f(x) { x }\nfn nop() { } fn endlet(x) { let q = x; } fn endwhile(x) { let j = 0; while j < 1 { j = j + 1; } } "
       "fn endblock(x) { { x; } } fn endif(x) { if x > 1 { let q = 1; } }\n")

# function bodies that leave through `return` from statement positions and from operand positions with operands
# pending in the callee: the caller's statement must be balanced however the callee returns
RET_BODIES = [
    "\"item-\" + if {C} {{ return \"skip\"; }} else {{ \"x\" }}",
    "f(if {C} {{ return 1; }} else {{ 3 }})",
    "[1, 2, if {C} {{ return 1; }} else {{ 3 }}]",
    "map {{1: if {C} {{ return 1; }} else {{ 2 }}}}",
    "a[if {C} {{ return 0; }} else {{ 0 }}]",
    "1 + match i {{ 0 => 1, _ => {{ if {C} {{ return 9; }} 2 }} }}",
    "let q = 5 * (1 + if {C} {{ return 1; }} else {{ 2 }}); q",
    "f(1 + (2 * if {C} {{ return 1; }} else {{ 1 }}))",
    "let j = 0; while j < 3 {{ j = j + 1; if {C} {{ return j; }} }} j",
    "let j = 0; while j < 3 {{ j = j + 1; let w = 1 + if {C} {{ return j; }} else {{ 2 }}; }} j",
    "if {C} {{ return 1; }} 2",
    "match i % 3 {{ 0 => {{ return 1; }}, _ => 2 }}",
    "i > 0 && (if {C} {{ return true; }} else {{ true }})",
    "if {C} {{ return; }} 2",
    "[1, [2, if {C} {{ return; }} else {{ 3 }}]]",
]
RET_CALLERS = [
    ("let", "let i = 0; while i < {N} {{ i = i + 1; let l = g(i); }}"),
    ("stmt", "let i = 0; while i < {N} {{ i = i + 1; g(i); }}"),
    ("operand", "let i = 0; let t = 0; while i < {N} {{ i = i + 1; t = [1, g(i)]; }}"),
    ("in-fn", "fn run() {{ let i = 0; while i < {N} {{ i = i + 1; let l = g(i); }} i }} run(); run();"),
]


def run(chk):
    rng = chk.rng
    quick = chk.tier == "quick"
    chk.rule = ("loop shapes (while, loop, labelled, nested, inside a function) x body statements (clean and operand-position "
                "break/continue, every expression form) x conditions x {break, continue, labelled} x iteration counts "
                "{3, 100, 10000}, plus recursion-free generated programs; distinct = distinct (loop shape, body shape, control "
                "transfer, iterations) and AST node-kind sets")
    chk.assumptions = ["per-statement balance inside value-producing blocks is not asserted (the final expression of a branch or "
                       "function body leaves its value by design); the height invariant per program point and the top-level "
                       "boundaries cover the property without that false alarm"]
    chk.floor = 1200
    chk.rule += '; plus functions left through return from statement and operand positions (15 bodies x 4 callers), loop conditions built from && / ||, match over literal patterns of every kind, map literals with coinciding keys, layer expressions ($n), calls of functions that end without a value'
    jobs = []
    iters = [3, 100, 10000]
    for (lname, ltmpl) in LOOPS:
        for dirty, stmts in ((False, CLEAN_STMTS), (True, DIRTY_STMTS)):
            for si, st in enumerate(stmts):
                for k in (["break", "continue"] + (["break outer", "continue outer"] if lname == "labelled" else [])):
                    if "{K}" not in st and k != "break":
                        continue
                    conds = COND if not quick else rng.sample(COND, 2)
                    for c in conds:
                        for n in iters:
                            if quick and n == 10000 and rng.random() < 0.6:
                                continue
                            body = st.format(C=c, K=k)
                            src = PRE + ltmpl.format(N=n, BODY=body) + "\nlet done = 1;\n1 + 1;\n"
                            jobs.append(((lname, "dirty" if dirty else "clean", si, k, n), src, dirty))
    for bi, body in enumerate(RET_BODIES):
        for (cname, ctmpl) in RET_CALLERS:
            conds = COND if not quick else rng.sample(COND, 2)
            for c in conds:
                for n in iters:
                    if quick and n == 10000 and rng.random() < 0.6:
                        continue
                    src = PRE + "fn g(i) { " + body.format(C=c) + " }\n" + ctmpl.format(N=n) + "\nlet done = 1;\n1 + 1;\n"
                    jobs.append((("return-" + cname, "clean", 100 + bi, "return", n), src, False))
    # recursion-free generated programs (loops scaled up)
    gjobs = []
    n_gen = 1500 if quick else 60000
    while len(gjobs) < n_gen:
        g = gen.Gen(rng, max_depth=rng.choice([2, 3, 4]), funcs=False)
        prog = g.program()
        text = gen.PRELUDE + gen.render(prog)[0]
        gjobs.append((prog, text))
    cases = [Case("s%d" % i, src, {"mon": "heights", "steps": 3000000}) for i, (_, src, _) in enumerate(jobs)]
    cases += [Case("g%d" % i, text, {"mon": "heights", "steps": 1000000}) for i, (_, text) in enumerate(gjobs)]
    res = core.run_cases(cases)
    tot_steps = 0
    tot_points = 0
    tot_revisited = 0
    max_visits = 0
    bound_hits = 0

    def judge(r):
        """-> None or (kind, detail)"""
        oc = r.get("outcome")
        h = r.get("height") or {}
        if h.get("violations"):
            return "height", h["violations"][0]
        if h.get("bound_violations"):
            return "boundary", h["bound_violations"][0]
        if oc == "rt_error" and "Stack overflow" in r["rt"]["msg"]:
            return "overflow", r["rt"]["msg"]
        return None

    for i, (tag, src, dirty) in enumerate(jobs):
        r = res.get("s%d" % i)
        if r is None or r.get("outcome") in ("parse_errors", "compile_error"):
            chk.inconc("shape program not accepted: %s" % ((r or {}).get("diag") or "missing"))
            if chk.inconclusive and sum(chk.inconclusive.values()) <= 3:
                chk.sample({"rejected": src})
            continue
        if r.get("outcome") == "panic":
            continue
        h = r.get("height") or {}
        tot_steps += r.get("steps", 0)
        tot_points += h.get("points", 0)
        tot_revisited += h.get("revisited", 0)
        max_visits = max(max_visits, h.get("max_visits", 0))
        bound_hits += h.get("bound_hits", 0)
        chk.observed(tag)
        if i % 401 == 0:
            chk.sample({"program": src, "steps": r.get("steps"), "max_sp": r.get("max_sp"), "program_points_revisited": h.get("revisited")})
        bad = judge(r)
        if not bad and r.get("outcome") == "rt_error":
            # none of the shape programs can fail on an interpreter that keeps its operands apart
            bad = ("fails", "runtime error: %s" % r["rt"]["msg"])
        if bad:
            if dirty and bad[0] != "fails":
                sig = "unbalanced|break-or-continue-in-operand-position"
            else:
                sig = "unbalanced|%s|%s|body%d|%s" % (bad[0], tag[0], tag[2], tag[3].split()[0])
            chk.violation(sig, "operand stack not balanced (%s: %s) after %d iterations; max sp %s" % (bad[0], bad[1], tag[4], r.get("max_sp")),
                          {"src": src, "monitor": h, "outcome": r.get("outcome"), "rt": r.get("rt")})
    for i, (prog, text) in enumerate(gjobs):
        r = res.get("g%d" % i)
        if r is None or r.get("outcome") in ("parse_errors", "compile_error", "panic"):
            continue
        h = r.get("height") or {}
        tot_steps += r.get("steps", 0)
        tot_points += h.get("points", 0)
        tot_revisited += h.get("revisited", 0)
        bound_hits += h.get("bound_hits", 0)
        from .c02 import node_kinds
        kinds = node_kinds(prog)
        chk.observed(("gen", frozenset(kinds)))
        bad = judge(r)
        if bad:
            def still(p):
                t = gen.PRELUDE + gen.render(p)[0]
                rr = core.run_one(t, {"mon": "heights", "steps": 1000000})
                return judge(rr) is not None
            try:
                small = gen.PRELUDE + gen.render(gen.shrink(prog, still, 100))[0]
            except Exception:
                small = None
            chk.violation("unbalanced-gen|%s|%s" % (bad[0], "+".join(sorted(kinds & {"if", "match", "while", "loop", "break", "continue", "block"}))),
                          "generated recursion-free program leaves the operand stack unbalanced (%s: %s)" % (bad[0], bad[1]),
                          {"src": text, "shrunk": small, "monitor": h})
    chk.count("vm_steps_monitored", tot_steps)
    chk.count("program_points_seen", tot_points)
    chk.count("program_points_revisited", tot_revisited)
    chk.count("max_visits_of_one_program_point", max_visits)
    chk.count("toplevel_boundaries_checked", bound_hits)
    if tot_revisited == 0 or bound_hits == 0:
        chk.inconc("the height monitor observed no revisited program point / no boundary")
        chk.evaluations = 0
