"""C18 - MAC, IPv4 and IPv6 address text converts losslessly and accepts standard forms.

Oracle: Python's ipaddress module (IPv4, IPv6) and a 6-line MAC parser.
(a) display -> assign -> same address; (b) every standard form is accepted and
denotes the address the reference parser gives; (c) wrong group counts and
out-of-range groups are runtime errors. Observed through eth/ipv4/ipv6 src/dst
assignment: read-back text and the bytes written by pcap_write."""
import ipaddress
import os
import shutil

from . import core, pkt
from .core import Case
from .val import canon_dump, lit, show


def ipv6_forms(rng, raw, exhaustive_zero_runs=False):
    """standard RFC 4291 hexadecimal spellings of the address"""
    groups = [int.from_bytes(raw[i:i + 2], "big") for i in range(0, 16, 2)]
    forms = []

    def g(x, style):
        if style == 0:
            return "%x" % x
        if style == 1:
            return "%X" % x
        if style == 2:
            return "%04x" % x
        return "%04X" % x
    for style in range(4):
        forms.append(":".join(g(x, style) for x in groups))
    # every run of zero groups may be written as '::' (at most one per text)
    for start in range(8):
        for ln in range(1, 9 - start):
            if all(x == 0 for x in groups[start:start + ln]):
                style = rng.randrange(4)
                left = ":".join(g(x, style) for x in groups[:start])
                right = ":".join(g(x, style) for x in groups[start + ln:])
                forms.append(left + "::" + right)
    return forms


def run(chk):
    rng = chk.rng
    quick = chk.tier == "quick"
    chk.rule = ("random and boundary MAC / IPv4 / IPv6 addresses: displayed text assigned back; IPv6 exhaustively over position and "
                "length of '::' (all 36 (start, length) zero runs incl. leading, trailing and '::' alone) x upper/lower case x with/"
                "without leading zeros; malformed texts (extra/missing groups, two '::', ':::', groups beyond ffff / 255 / ff, stray "
                "separators, empty text); distinct = distinct (family, form class, outcome)")
    chk.assumptions = ["non-standard but tolerated spellings (leading zeros in dotted quads, one-digit MAC octets) may be rejected or accepted; when "
                       "accepted they must store the address they obviously denote (zero-padded / decimal reading)",
                       "signs and IPv4-mapped mixed notation are outside the property and not judged"]
    chk.floor = 800
    chk.rule += '; plus IPv4-mapped / compatible / NAT64-prefixed addresses, the text of one address assigned to the other (and swaps), tolerated spellings (one-digit MAC octets, leading zeros) that must be rejected or store the address they denote'
    work = core.scratch_dir()
    try:
        m = pkt.rand_bytes(rng, 12)
        f4 = pkt.eth(m[:6], m[6:], pkt.ET_IPV4, pkt.ipv4(b"\x0a\x00\x00\x01", b"\x0a\x00\x00\x02", 17, pkt.udp(1, 2, b"xy")))
        f6 = pkt.eth(m[:6], m[6:], pkt.ET_IPV6, pkt.ipv6(bytes(range(16)), bytes(range(16, 32)), 17, pkt.udp(1, 2, b"xy")))
        in4 = os.path.join(work, "in4.pcap")
        in6 = os.path.join(work, "in6.pcap")
        open(in4, "wb").write(pkt.pcap_file([(1, 2, f4)]))
        open(in6, "wb").write(pkt.pcap_file([(1, 2, f6)]))
        # ---- valid texts: (family, text, expected bytes, class)
        valid = []
        n = 40 if quick else 1500
        macs = [bytes(6), b"\xff" * 6, bytes([0, 1, 2, 10, 0xAB, 0xFF])] + [pkt.rand_bytes(rng, 6) for _ in range(n)]
        for raw in macs:
            valid.append(("mac", ":".join("%02X" % b for b in raw), raw, "upper"))
            valid.append(("mac", ":".join("%02x" % b for b in raw), raw, "lower"))
        v4s = [bytes(4), b"\xff" * 4, bytes([1, 2, 3, 4]), bytes([127, 0, 0, 1]), bytes([10, 0, 255, 9])] + [pkt.rand_bytes(rng, 4) for _ in range(n)]
        for raw in v4s:
            valid.append(("ip4", ".".join(str(b) for b in raw), raw, "dotted"))
        v6s = [bytes(16), b"\xff" * 16, bytes(15) + b"\x01", b"\x00\x01" + bytes(14), b"\x20\x01\x0d\xb8" + bytes(11) + b"\x01",
               b"\xfe\x80" + bytes(6) + b"\x02\x00\x5e\xff\xfe\x00\x53\x01"]
        # prefixes a display routine may treat specially (IPv4-mapped, IPv4-compatible, NAT64, loopback-like, documentation)
        for _ in range(4):
            v6s.append(bytes(10) + b"\xff\xff" + pkt.rand_bytes(rng, 4))
            v6s.append(bytes(12) + pkt.rand_bytes(rng, 4))
            v6s.append(b"\x00\x64\xff\x9b" + bytes(8) + pkt.rand_bytes(rng, 4))
            v6s.append(bytes(8) + b"\xff\xff" + bytes(2) + pkt.rand_bytes(rng, 4))
            v6s.append(bytes(14) + pkt.rand_bytes(rng, 2))
        v6s += [bytes(10) + b"\xff\xff" + bytes([192, 168, 0, 1]), bytes(10) + b"\xff\xff" + bytes(4), bytes(12) + bytes([1, 2, 3, 4]), bytes(15) + b"\x02",
                b"\xff\x02" + bytes(13) + b"\x01", bytes(10) + b"\xff\xfe" + bytes([10, 0, 0, 1])]
        # one address per (start, length) zero run so that all 36 compressions occur
        for start in range(8):
            for ln in range(1, 9 - start):
                gs = [rng.randint(1, 0xFFFF) for _ in range(8)]
                for i in range(start, start + ln):
                    gs[i] = 0
                v6s.append(b"".join(x.to_bytes(2, "big") for x in gs))
        for _ in range(n):
            gs = [rng.choice([0, 0, rng.getrandbits(16), rng.getrandbits(4), 0xFFFF]) for _ in range(8)]
            v6s.append(b"".join(x.to_bytes(2, "big") for x in gs))
        for raw in v6s:
            for t in ipv6_forms(rng, raw):
                cls = "full" if "::" not in t else ("leading" if t.startswith("::") and len(t) > 2 else "trailing" if t.endswith("::") and len(t) > 2
                                                  else "alone" if t == "::" else "middle")
                assert ipaddress.IPv6Address(t).packed == raw, t
                valid.append(("ip6", t, raw, cls))
        # ---- invalid texts
        invalid = []
        for t in ["", ":", "00:11:22:33:44", "00:11:22:33:44:55:66", "00:11:22:33:44:GG", "00:11:22:33:44:100", "001122334455", "00-11-22-33-44-55",
                  "00:11:22:33:44:", ":00:11:22:33:44:55", "00:11::33:44:55", "1ff:11:22:33:44:55", "00:11:22:33:44:5g"]:
            invalid.append(("mac", t))
        for t in ["", "1.2.3", "1.2.3.4.5", "256.1.1.1", "1.2.3.256", "1.2.3.-1", "a.b.c.d", "1..3.4", "1.2.3.", ".1.2.3", "1,2,3,4", "1.2.3.4/8", "999.999.999.999",
                  "1.2.3.1000"]:
            invalid.append(("ip4", t))
        for t in ["", "1:2:3:4:5:6:7", "1:2:3:4:5:6:7:8:9", "1::2::3", ":::", "1:::2", "10000::1", "1:2:3:4:5:6:7:fffff", "g::1", "1:2:3:4:5:6:7:",
                  ":1:2:3:4:5:6:7", "1:2:3:4:5:6:7:8::", "::1:2:3:4:5:6:7:8", "1.2.3.4", "1:2:3:4:5:6:7:-1", "1 ::2", "12345::"]:
            try:
                ipaddress.IPv6Address(t)
                continue    # the reference accepts it: not an invalid text
            except Exception:
                invalid.append(("ip6", t))
        invalid = [(f, t) for f, t in invalid if '"' not in t]
        # ---- programs
        cases = []
        meta = {}
        B = 40
        fam_cfg = {"mac": (in4, "p.eth", 6, 0), "ip4": (in4, "p.eth.ipv4", 4, 14 + 16), "ip6": (in6, "p.eth.ipv6", 16, 14 + 24)}
        for fam in ("mac", "ip4", "ip6"):
            items = [v for v in valid if v[0] == fam]
            for bi in range(0, len(items), B):
                batch = items[bi:bi + B]
                inp, path, size, dst_off = fam_cfg[fam]
                outp = os.path.join(work, "o-%s-%d.pcap" % (fam, bi))
                lines = ["let __o = []; let p = pcap_read_next(pcap_open(%s)); let L = %s; let o = pcap_open(%s, \"w\");" % (lit(inp), path, lit(outp))]
                for (_, t, raw, cls) in batch:
                    # (b) the text is accepted; (a) the displayed text of what was stored is assigned to the other address and must store the same
                    lines.append("L.dst = %s; let shown = L.dst; L.src = shown; push(__o, [shown, L.src]); pcap_write(o, p);" % lit(t))
                cid = "v-%s-%d" % (fam, bi)
                cases.append(Case(cid, "\n".join(lines), {"globals": "__o", "steps": 1000000}))
                meta[cid] = (fam, batch, outp, dst_off, size)
        for k, (fam, t) in enumerate(invalid):
            inp, path, size, dst_off = fam_cfg[fam]
            cases.append(Case("x%d" % k, "let __o = []; let p = pcap_read_next(pcap_open(%s)); let L = %s; L.dst = %s; push(__o, L.dst);" % (lit(inp), path, lit(t)),
                              {"globals": "__o", "steps": 100000}))
        # ---- the text of one address assigned to the other one (dst := src, src := dst, swaps in both orders)
        cross = []
        for fam in ("mac", "ip4", "ip6"):
            inp, path, size, dst_off = fam_cfg[fam]
            for order in range(4):
                prog = "let __o = []; let p = pcap_read_next(pcap_open(%s)); let L = %s; let s0 = L.src; let d0 = L.dst; " % (lit(inp), path)
                if order == 0:
                    prog += "L.dst = L.src; push(__o, [L.src == s0, L.dst == s0]);"
                    want = ["true", "true"]
                elif order == 1:
                    prog += "L.src = L.dst; push(__o, [L.src == d0, L.dst == d0]);"
                    want = ["true", "true"]
                elif order == 2:
                    prog += "L.dst = s0; L.src = d0; push(__o, [L.src == d0, L.dst == s0]);"
                    want = ["true", "true"]
                else:
                    prog += "L.src = d0; L.dst = s0; push(__o, [L.src == d0, L.dst == s0]); L.dst = L.dst; L.src = L.src; push(__o, [L.src == d0, L.dst == s0]);"
                    want = ["true", "true", "true", "true"]
                cid = "c-%s-%d" % (fam, order)
                cases.append(Case(cid, prog, {"globals": "__o", "steps": 100000}))
                cross.append((cid, fam, order, want, prog))
        # ---- spellings that are tolerated rather than standard: either rejected, or the address they obviously denote
        tolerated = []
        for _ in range(12 if quick else 300):
            raw = pkt.rand_bytes(rng, 6)
            raw = bytes(b if rng.random() < 0.5 else b & 0x0F for b in raw)
            t = ":".join(("%x" % b) for b in raw)           # one-digit groups where the octet is below 16
            tolerated.append(("mac", t, raw))
            raw4 = bytes(rng.choice([0, 1, 7, 9, 10, 77, 99, 100]) for _ in range(4))
            tolerated.append(("ip4", ".".join(rng.choice(["%d", "%02d", "%03d"]) % b for b in raw4), raw4))
        tolerated += [("mac", "aa:b:cc:d:ee:f", bytes([0xaa, 0x0b, 0xcc, 0x0d, 0xee, 0x0f])), ("mac", "0:1:2:3:4:5", bytes(range(6))), ("mac", "1:2:3:4:5:6", bytes(range(1, 7)))]
        for k, (fam, t, raw) in enumerate(tolerated):
            inp, path, size, dst_off = fam_cfg[fam]
            outp = os.path.join(work, "t%d.pcap" % k)
            cases.append(Case("t%d" % k, "let __o = []; let p = pcap_read_next(pcap_open(%s)); let L = %s; L.dst = %s; push(__o, L.dst); pcap_write(pcap_open(%s, \"w\"), p);"
                              % (lit(inp), path, lit(t), lit(outp)), {"globals": "__o", "steps": 100000}))
        res = core.run_cases(cases)
        for cid, fam, order, want, prog in cross:
            r = res.get(cid)
            if r is None:
                chk.inconc("missing result")
                continue
            chk.observed((fam, "cross", order))
            got = [show(x) for x in canon_dump(r["globals"]["__o"])[1]] if r.get("outcome") == "ok" and "globals" in r else None
            flat = []
            for g in (got or []):
                flat += [x.strip() for x in g.strip("[]").split(",")]
            if flat != want:
                chk.violation("cross|%s|%d" % (fam, order), "assigning the displayed text of one %s address to the other one: %s gives %s (%s)" % (
                    fam, prog.split("let d0 = L.dst; ")[1], got, r.get("rt") or r.get("outcome")), {"src": prog})
        for k, (fam, t, raw) in enumerate(tolerated):
            r = res.get("t%d" % k)
            if r is None:
                chk.inconc("missing result")
                continue
            oc = r.get("outcome")
            inp, path, size, dst_off = fam_cfg[fam]
            off_ = 0 if fam == "mac" else dst_off
            if oc == "panic":
                chk.violation("panic|" + core.panic_site_sig(r["panic"]["loc"], r["panic"]["msg"]), "address text %r panics" % t, {"text": t})
            elif oc == "rt_error":
                chk.observed((fam, "tolerated-form", "rejected"))
            elif oc == "ok":
                chk.observed((fam, "tolerated-form", "accepted"))
                try:
                    _, recs, _ = pkt.parse_pcap(open(os.path.join(work, "t%d.pcap" % k), "rb").read())
                    stored = recs[0][4][off_:off_ + size]
                except (OSError, IndexError):
                    stored = None
                if stored != raw:
                    chk.violation("tolerated-form-misread|%s" % fam, "the %s text %r is accepted but stores %s, not %s" % (
                        fam, t, stored.hex() if stored else None, raw.hex()), {"text": t})
        for cid, (fam, batch, outp, dst_off, size) in meta.items():
            r = res.get(cid)
            if r is None:
                chk.inconc("missing result")
                continue
            oc = r.get("outcome")
            if oc == "panic":
                chk.violation("panic|" + core.panic_site_sig(r["panic"]["loc"], r["panic"]["msg"]), "address assignment panics", {"case": cid})
                continue
            obs = canon_dump(r["globals"]["__o"])[1] if "globals" in r else ()
            try:
                _, recs, _ = pkt.parse_pcap(open(outp, "rb").read())
            except OSError:
                recs = []
            src_off = dst_off - size if fam != "mac" else 6
            if fam == "mac":
                dst_off_, src_off_ = 0, 6
            else:
                dst_off_, src_off_ = dst_off, dst_off - size
            for k, (_, t, raw, cls) in enumerate(batch):
                if k >= len(obs):
                    # the script stopped here: this text was rejected
                    if k == len(obs):
                        chk.observed((fam, cls, "rejected"))
                        chk.violation("rejected|%s|%s" % (fam, cls), "the standard %s text %r is rejected: %s" % (fam, t, (r.get("rt") or {}).get("msg")),
                                      {"text": t, "expected_bytes": raw.hex()})
                    else:
                        chk.inconc("not reached after an earlier rejection in the same batch")
                    continue
                chk.observed((fam, cls, "accepted"))
                if len(chk.samples) < 12 and k == 0:
                    chk.sample({"family": fam, "text": t, "reads_back": show(obs[k])})
                shown, src_text = obs[k][1]
                data = recs[k][4] if k < len(recs) else None
                bad = None
                if data is None:
                    bad = "nothing was written"
                elif data[dst_off_:dst_off_ + size] != raw:
                    bad = "stored %s, the reference parser gives %s" % (data[dst_off_:dst_off_ + size].hex(), raw.hex())
                elif data[src_off_:src_off_ + size] != raw:
                    bad = "assigning the displayed text %s back stores %s instead of %s" % (show(shown), data[src_off_:src_off_ + size].hex(), raw.hex())
                if bad:
                    chk.violation("address|%s|%s" % (fam, cls), "%s text %r: %s" % (fam, t, bad), {"text": t, "expected_bytes": raw.hex()})
        for k, (fam, t) in enumerate(invalid):
            r = res.get("x%d" % k)
            if r is None:
                chk.inconc("missing result")
                continue
            oc = r.get("outcome")
            chk.observed((fam, "malformed", oc))
            if oc == "panic":
                chk.violation("panic|" + core.panic_site_sig(r["panic"]["loc"], r["panic"]["msg"]), "malformed address text %r panics" % t, {"text": t})
            elif oc != "rt_error":
                chk.violation("malformed-accepted|%s" % fam, "the malformed %s text %r is accepted (reads back %s)" % (
                    fam, t, show(canon_dump(r["globals"]["__o"])[1][0]) if "globals" in r and r["globals"].get("__o") and r["globals"]["__o"]["a"] else "?"),
                    {"text": t})
        # ---- a rejected text leaves no trace in how later texts are read (the REPL goes on after the runtime error)
        iso = []
        bad6 = ["2001:db8:1:2:3:4::5:6", "::1:2:zz", "1::2::3", "::1:2:3:4:5:6:7:8", "fe80::1:zz", "1:2:3:4:5:6:7::8:9", "::ffff:1:2:3:4:5:6:7", "1::g", "a:b::c:d:e:f:1:2:3"]
        good6 = [["L.src = \"fe80::1\"; puts(L.src);", "L.dst = \"::2:3\"; puts(L.dst);", "L.src = \"1::\"; puts(L.src);", "L.dst = \"1:2:3:4:5:6:7:8\"; puts(L.dst);"],
                 ["L.dst = \"::\"; puts(L.dst);", "L.src = \"a::b:c\"; puts(L.src);", "L.src = \"::1\"; puts(L.src);"]]
        for bi, b in enumerate(bad6 if not quick else bad6[:6]):
            iso.append(("ip6", ["let p = pcap_read_next(pcap_open(%s)); let L = p.eth.ipv6;" % lit(in6)], ["L.src = %s;" % lit(b)], good6[bi % 2], []))
        for b in ("1.2.3.999", "1.2.3", "10.0.0.1.5", "10.x.0.1"):
            iso.append(("ip4", ["let p = pcap_read_next(pcap_open(%s)); let L = p.eth.ipv4;" % lit(in4)], ["L.dst = %s;" % lit(b)],
                        ["L.dst = \"10.20.30.40\"; puts(L.dst);", "L.src = \"1.2.3.4\"; puts(L.src);"], []))
        for b in ("aa:bb:cc:dd:ee:gg", "aa:bb:cc", "aa:bb:cc:dd:ee:ff:00"):
            iso.append(("mac", ["let p = pcap_read_next(pcap_open(%s)); let L = p.eth;" % lit(in4)], ["L.dst = %s;" % lit(b)],
                        ["L.dst = \"01:02:03:04:05:06\"; puts(L.dst);", "L.src = \"aa:bb:cc:dd:ee:ff\"; puts(L.src);"], []))
        core.isolation_after_errors(chk, "address", iso)
    finally:
        shutil.rmtree(work, ignore_errors=True)
