"""C24 - script and command modes run a program the same way with the same argv.

Metamorphic + direct oracle at the process boundary (real binary, both
profiles): `p2sh file args...` and `p2sh -c text args...` must produce the
same stdout / stderr / exit status, except for the one extra line -c prints
for a non-null final expression statement; argv is [path] + args in script
mode and the positional arguments in -c mode; a `#!` first line behaves like
an empty comment line."""
import os
import shutil

from . import core

# final statements: (text, value printed by -c or None)
FINALS = [
    ("1 + 2", "3"), ("7;", "7"), ("\"text\"", "\"text\""), ("true", "true"), ("[1, 2, 3]", "[1, 2, 3]"), ("'c'", "'c'"), ("40 + 2;", "42"),
    ("[\"a\", 1]", "[\"a\", 1]"), ("if true { 5 } else { 6 }", "5"), ("match 2 { 2 => \"two\", _ => \"other\" }", "\"two\""), ("len(\"four\")", "4"),
    ("null", None), ("puts(\"last\")", None), ("if false { 1 }", None), ("let z = 99;", None), ("let w = \"s\";", None),
    ("fn late() { 1 }", None), ("{ 12 }", None), ("let q = 0; while q < 2 { q = q + 1; }", None), ("loop { break; }", None), ("acc = 5;", "5"),
    ("push(arr, 1);", None), ("arr", "[10, 20]"), ("-1", "-1"), ("!0", "true"),
    # a final statement that is not an expression statement although the last emitted instructions belong to one
    ("{ 5; }", None), ("7; { }", None), ("8; { let z = 1; }", None), ("{ { 3 } }", None), ("9; fn late2() { 2 }", None), ("6; let y = 1;", None),
    ("4; while false { }", None), ("11; if false { 1 }", None), ("12; null", None), ("null; 13", "13"), ("{ 1 } 14", "14"),
    # after statements that leave operands behind (break / continue taken in operand position, the open finding of C07), the
    # value echoed is still that of the final expression statement
    ("let s = 0; let i = 0; while i < 3 { i = i + 1; s = s + i * if i == 2 { continue; } else { 10 }; } s", "40"),
    ("let k = 0; loop { k = k + 1; let t = [7, if k > 2 { break; } else { 1 }]; } k + 100", "103"),
    ("let j = 0; while j < 2 { j = j + 1; let w = [1, 2, if j == 1 { continue; } else { 3 }]; } \"done\"", "\"done\""),
]

SHEBANGS = ["#!/usr/bin/env p2sh", "#!", "#!/usr/local/bin/p2sh -s", "#!/home/jos\u00e9/\u5de5\u5177/bin/p2sh", "#! \u00e9", "#!/bin/p2sh " + "x" * 300,
            "#!\U0001F496\U0001F496", "#!/usr/bin/env p2sh\t# let q = 1;"]


def gen_program(rng):
    lines = ["let acc = 0; let arr = [10, 20];"]
    out = []
    err = []
    n = rng.randint(0, 8)
    fail_at = rng.randrange(n + 1) if n and rng.random() < 0.3 else None
    failed = False
    for k in range(n):
        if fail_at == k:
            c = rng.choice(["1 / 0;", "arr[9];", "len(1);", "undefined_fn_call_result = acc(1);", "1 + \"a\";"])
            if c.startswith("undefined"):
                c = "acc(1);"
            lines.append(c)
            failed = True
            break
        t = rng.randrange(5)
        if t == 0:
            lines.append("puts(\"line %d\");" % k)
            out.append("line %d\n" % k)
        elif t == 1:
            lines.append("eprintln(\"err {}\", %d);" % k)
            err.append("err %d\n" % k)
        elif t == 2:
            lines.append("acc = acc + %d;" % k)
        elif t == 3:
            lines.append("println(\"{} {}\", \"fmt\", %d);" % k)
            out.append("fmt %d\n" % k)
        else:
            lines.append("# comment %d" % k)
    final = None
    if not failed:
        ftext, fval = rng.choice(FINALS)
        lines.append(ftext)
        if ftext.startswith("puts("):
            out.append("last\n")
        final = fval
    return lines, "".join(out), "".join(err), failed, final


ARGVS = [[], ["a"], ["a", "b", "c"], ["with space", "tab\there"], [""], ["", "x", ""], ["é", "日本", "\U0001F496"], ["--", "-x", "--flag"], ["--", "-s"],
         ["--", "-c", "text"], ["1", "2.5", "true"], ["a" * 300], ["--", "--"], ["*", "$HOME", "`x`", "\\n"], ["=", "a=b"],
         ["out ", " ", "tab\t", " lead", "mid dle ", "\t", "trail  ", "cr\r", "nl\n"], ["x ", "--", "-y "], ["a\u00a0", "\u3000"], ["-"], ["-", "x"], ["x", "-"], ["--", "-"], ["-", "-"], ["/dev/stdin"], ["-", "--", "-z"]]


def expect_argv(args, script_path, cmd_mode):
    a = list(args)
    if "--" in a:
        i = a.index("--")
        a = a[:i] + a[i + 1:]
    items = ([] if cmd_mode else [script_path]) + a
    return "[" + ", ".join("\"%s\"" % x for x in items) + "]"


def run(chk):
    rng = chk.rng
    quick = chk.tier == "quick"
    chk.rule = ("programs that print, fail at a random statement, and end in every kind of final statement (non-null / null expression, "
                "let, function, block, loop, assignment) run from a file, from a file with a shebang line and with -c; argument vectors "
                "(empty, unicode, spaces, empty strings, dash-prefixed after --, -s / -c look-alikes); exit statuses; distinct = distinct "
                "(final statement kind, fails?, argv shape, profile)")
    chk.assumptions = ["values printed by -c are restricted to kinds whose display is fixed (integers, strings, booleans, chars, arrays of those)"]
    chk.floor = 300
    chk.rule += "; plus shebang lines with non-ASCII text / odd shapes, final bare-block statements, arguments with leading / trailing white space and a lone '-'; argv read in a REPL session (before and after rejected and failing lines)"
    work = core.scratch_dir()
    try:
        n = 400 if quick else 4000
        path = os.path.join(work, "prog.p2")
        spath = os.path.join(work, "shebang.p2")
        for t in range(n):
            lines, out, err, failed, final = gen_program(rng)
            text = "\n".join(lines) + "\n"
            rel = t % 2 == 1
            with open(path, "w") as f:
                f.write(text)
            with open(spath, "w", encoding="utf-8") as f:
                f.write(SHEBANGS[t % len(SHEBANGS)] + "\n" + text)
            with open(path + ".blank", "w") as f:
                f.write("#\n" + text)
            rf = core.run_binary([path], release=rel, timeout=30)
            rc = core.run_binary(["-c", text], release=rel, timeout=30)
            rs = core.run_binary([spath], release=rel, timeout=30)
            rb = core.run_binary([path + ".blank"], release=rel, timeout=30)
            if any(x["timeout"] for x in (rf, rc, rs, rb)):
                chk.inconc("timeout")
                continue
            if any(core.crashed(x) for x in (rf, rc, rs, rb)):
                chk.violation("crash", "a mode crashes: %s" % [x["err"][-100:] for x in (rf, rc, rs, rb) if core.crashed(x)], {"src": text})
                continue
            kind = "fails" if failed else ("final-value" if final is not None else "final-null-or-statement")
            chk.observed((kind, lines[-1].split("(")[0].split(" ")[0][:8], rel))
            if t % 37 == 0:
                chk.sample({"program": text, "file_stdout": rf["out"].decode("utf-8", "replace"), "-c_stdout": rc["out"].decode("utf-8", "replace")})
            fo, co = rf["out"].decode("utf-8", "replace"), rc["out"].decode("utf-8", "replace")
            fe, ce = rf["err"].decode("utf-8", "replace"), rc["err"].decode("utf-8", "replace")
            bad = None
            sig = None
            if fo != out:
                bad, sig = "script mode printed %r, expected %r" % (fo, out), "file-stdout"
            elif not failed and fe != err:
                bad, sig = "script mode stderr %r, expected %r" % (fe, err), "file-stderr"
            elif failed and (not fe.startswith(err) or "Runtime error" not in fe):
                bad, sig = "script mode stderr %r lacks the runtime error after %r" % (fe, err), "file-stderr-failure"
            elif ce != fe:
                bad, sig = "-c stderr %r differs from script mode %r" % (ce, fe), "cmd-stderr"
            elif rf["rc"] != rc["rc"]:
                bad, sig = "exit status %s (script) vs %s (-c)" % (rf["rc"], rc["rc"]), "exit-status"
            else:
                want = out + (final + "\n" if final is not None else "")
                if co != want:
                    bad = "-c printed %r, expected %r (script mode output%s)" % (co, want, " plus the value of the final expression statement" if final is not None else
                                                                               ": the program " + ("stopped with a runtime error" if failed else "does not end in a non-null expression statement"))
                    sig = "cmd-stdout|" + kind
            if not bad:
                # shebang line = an empty comment line (same output, line numbers shifted by one like the '#' variant)
                if rs["out"] != rb["out"] or rs["err"] != rb["err"] or rs["rc"] != rb["rc"]:
                    bad, sig = "a '#!' first line behaves differently from an empty comment line: %r vs %r" % (rs["err"][-80:], rb["err"][-80:]), "shebang"
                elif rs["out"].decode("utf-8", "replace") != out:
                    bad, sig = "with a shebang line the script printed %r, expected %r" % (rs["out"], out), "shebang-output"
            if bad:
                chk.violation("modes|" + sig, bad, {"src": text})
        # filter programs: script and command mode agree also when the part before the filters fails at run time
        from . import pkt as _pkt
        cap = os.path.join(work, "three.pcap")
        with open(cap, "wb") as f:
            f.write(_pkt.pcap_file([(1, 2, bytes(range(60))), (2, 3, bytes(range(62))), (3, 4, bytes(range(64)))]))
        FPROGS = ["let c = 0; @ true { c = c + 1; } @ end { eprintln(\"n {}\", c); }", "let c = 0; 1 / 0; @ true { c = c + 1; } @ end { eprintln(\"n {}\", c); }",
                  "eprintln(\"start\"); [1][5]; @ NP > 1 @ end { eprintln(\"end {}\", NP); }", "fn f() { f() } f(); @ true @ end { eprintln(\"e\"); }",
                  "let a = len(1); @ PL > 60", "puts(1 / 0); @ true { eprintln(\"p {}\", NP); }", "@ true { 1 / 0; } @ end { eprintln(\"after\"); }", "7; @ true", "\"v\" @ end { eprintln(\"x\"); }"]
        for k, prog in enumerate(FPROGS):
            with open(path, "w") as f:
                f.write(prog + "\n")
            for rel in (False, True):
                for extra in ([], ["-s"]):
                    with open(cap, "rb") as fi:
                        rf = core.run_binary(extra + [path], stdin_file=fi, release=rel, timeout=30)
                    with open(cap, "rb") as fi:
                        rc = core.run_binary(extra + ["-c", prog], stdin_file=fi, release=rel, timeout=30)
                    if rf["timeout"] or rc["timeout"]:
                        chk.inconc("timeout")
                        continue
                    chk.observed(("filter-program", k, rel, bool(extra)))
                    if core.crashed(rf) or core.crashed(rc):
                        chk.violation("crash", "a mode crashes on a filter program", {"src": prog})
                    elif rf["out"] != rc["out"] or rf["err"] != rc["err"] or rf["rc"] != rc["rc"]:
                        chk.violation("modes|filter-program|%s" % ("fails-before-filters" if b"Runtime error" in rf["err"] else "ok"),
                                      "the filter program %r behaves differently as a script (stdout %d bytes, stderr %r) and with -c (stdout %d bytes, stderr %r)" % (
                                          prog, len(rf["out"]), rf["err"][-80:], len(rc["out"]), rc["err"][-80:]), {"src": prog})
        # argv
        with open(path, "w") as f:
            f.write("puts(argv);\n")
        for k, args in enumerate(ARGVS * (1 if quick else 3)):
            if k >= len(ARGVS):
                args = [rng.choice(["x", "é", "a b", "", "-", "0", "t ", " ", "e\t", " s"]) for _ in range(rng.randint(0, 6))]
                if any(a.startswith("-") for a in args):
                    args = ["--"] + args
            for rel in (False, True):
                rf = core.run_binary([path] + args, release=rel, timeout=30)
                rc = core.run_binary(["-c", "puts(argv);"] + args, release=rel, timeout=30)
                chk.observed(("argv", len(args), any(a == "" for a in args), "--" in args, rel))
                wf = expect_argv(args, path, False) + "\n"
                wc = expect_argv(args, path, True) + "\n"
                if rf["out"].decode("utf-8", "replace") != wf:
                    chk.violation("argv|script", "script mode argv prints %r, expected %r (stderr %r)" % (rf["out"][:200], wf[:200], rf["err"][-120:]), {"args": args})
                if rc["out"].decode("utf-8", "replace") != wc:
                    chk.violation("argv|command", "-c mode argv prints %r, expected %r (stderr %r)" % (rc["out"][:200], wc[:200], rc["err"][-120:]), {"args": args})
        # argv in the REPL: nothing, on every line, also after lines that were rejected or failed
        for rel in (False, True):
            lines = ["puts(argv);", "puts(len(argv));", "zzz", "puts(len(argv));", "1 / 0", "let n = 0; while n < len(argv) { puts(argv[n]); n = n + 1; } puts(n);", "argv"]
            outs, errs, rr = core.repl_session(lines, release=rel, timeout=60)
            if outs is None:
                chk.inconc("REPL session for argv did not finish")
                continue
            chk.observed(("argv", "repl", rel))
            want = ["[]\n", "0\n", "", "0\n", "", "0\n", "[]\n"]
            if outs != want:
                k_ = next(i for i in range(len(want)) if outs[i] != want[i])
                chk.violation("argv|repl", "in the REPL, line %r prints %r, expected %r (argv holds nothing there)" % (lines[k_], outs[k_][:200], want[k_]), {"lines": lines})
        # exit status through both modes
        for code in (0, 1, 7, 255):
            with open(path, "w") as f:
                f.write("puts(\"a\"); exit(%d);\n" % code)
            rf = core.run_binary([path], timeout=30)
            rc = core.run_binary(["-c", "puts(\"a\"); exit(%d);" % code], timeout=30)
            chk.observed(("exit", code))
            if rf["rc"] != code or rc["rc"] != code or rf["out"] != rc["out"]:
                chk.violation("modes|exit-status", "exit(%d): script mode status %s, -c status %s" % (code, rf["rc"], rc["rc"]), {})
    finally:
        shutil.rmtree(work, ignore_errors=True)
