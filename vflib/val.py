"""p2sh values on the Python side: a small model, literal rendering, and
canonical forms for comparing model values with the probe's dumps."""
import math
import struct

I64_MIN = -(1 << 63)
I64_MAX = (1 << 63) - 1


def wrap64(x):
    return ((x + (1 << 63)) & ((1 << 64) - 1)) - (1 << 63)


class Char:
    __slots__ = ("cp",)

    def __init__(self, cp):
        self.cp = cp if isinstance(cp, int) else ord(cp)

    def __repr__(self):
        return "Char(%r)" % chr(self.cp)

    def __eq__(self, o):
        return isinstance(o, Char) and o.cp == self.cp

    def __hash__(self):
        return hash(("c", self.cp))


class Byte:
    __slots__ = ("n",)

    def __init__(self, n):
        self.n = n & 0xFF

    def __repr__(self):
        return "Byte(%d)" % self.n

    def __eq__(self, o):
        return isinstance(o, Byte) and o.n == self.n

    def __hash__(self):
        return hash(("b", self.n))


class Arr:
    """arrays are shared by reference"""
    __slots__ = ("items",)

    def __init__(self, items=None):
        self.items = list(items or [])

    def __repr__(self):
        return "Arr(%r)" % (self.items,)


class Map:
    """association list; key identity is decided by the caller's equality"""
    __slots__ = ("pairs",)

    def __init__(self, pairs=None):
        self.pairs = list(pairs or [])

    def __repr__(self):
        return "Map(%r)" % (self.pairs,)


class Closure:
    __slots__ = ("fn", "free", "name")

    def __init__(self, fn=None, free=None, name=None):
        self.fn = fn
        self.free = free
        self.name = name

    def __repr__(self):
        return "Closure()"


class Builtin:
    __slots__ = ("name",)

    def __init__(self, name):
        self.name = name

    def __repr__(self):
        return "Builtin(%s)" % self.name


class ErrObj:
    __slots__ = ("text",)

    def __init__(self, text=""):
        self.text = text

    def __repr__(self):
        return "ErrObj(%r)" % self.text


class Opaque:
    __slots__ = ("what",)

    def __init__(self, what):
        self.what = what

    def __repr__(self):
        return "Opaque(%s)" % self.what


def kind(v):
    if v is None:
        return "null"
    if isinstance(v, bool):
        return "bool"
    if isinstance(v, int):
        return "int"
    if isinstance(v, float):
        return "float"
    if isinstance(v, str):
        return "string"
    if isinstance(v, Char):
        return "char"
    if isinstance(v, Byte):
        return "byte"
    if isinstance(v, Arr):
        return "array"
    if isinstance(v, Map):
        return "map"
    if isinstance(v, Closure):
        return "closure"
    if isinstance(v, Builtin):
        return "builtin"
    if isinstance(v, ErrObj):
        return "error"
    return "opaque"


def fbits(x):
    return struct.unpack("<Q", struct.pack("<d", x))[0]


def from_bits(b):
    return struct.unpack("<d", struct.pack("<Q", b))[0]


class TooDeep(Exception):
    """a container nested deeper than any generated literal: self-containing"""


def canon(v, depth=0):
    """canonical comparable form of a model value"""
    if depth > 40:
        raise TooDeep()
    if v is None:
        return ("null",)
    if isinstance(v, bool):
        return ("bool", v)
    if isinstance(v, int):
        return ("i", v)
    if isinstance(v, float):
        return ("f", "nan") if v != v else ("f", fbits(v))
    if isinstance(v, str):
        return ("s", v)
    if isinstance(v, Char):
        return ("c", v.cp)
    if isinstance(v, Byte):
        return ("b", v.n)
    if isinstance(v, Arr):
        return ("a", tuple(canon(x, depth + 1) for x in v.items))
    if isinstance(v, Map):
        return ("m", tuple(sorted(((canon(k, depth + 1), canon(x, depth + 1)) for k, x in v.pairs), key=repr)))
    if isinstance(v, Closure):
        return ("fn",)
    if isinstance(v, Builtin):
        return ("bi", v.name)
    if isinstance(v, ErrObj):
        return ("err",)
    return ("o", getattr(v, "what", "?"))


def canon_dump(d):
    """canonical comparable form of a probe dump"""
    if d is None:
        return ("null",)
    if d is True or d is False:
        return ("bool", d)
    if "i" in d:
        return ("i", int(d["i"]))
    if "f" in d:
        b = int(d["f"], 16)
        x = from_bits(b)
        return ("f", "nan") if x != x else ("f", b)
    if "s" in d:
        return ("s", d["s"])
    if "c" in d:
        return ("c", d["c"])
    if "b" in d:
        return ("b", d["b"])
    if "a" in d:
        return ("a", tuple(canon_dump(x) for x in d["a"]))
    if "m" in d:
        return ("m", tuple(sorted(((canon_dump(k), canon_dump(x)) for k, x in d["m"]), key=repr)))
    if "fn" in d:
        return ("fn",)
    if "bi" in d:
        return ("bi", d["bi"])
    if "e" in d:
        return ("err",)
    if "o" in d:
        return ("o", d["o"])
    if "file" in d:
        return ("o", "file")
    return ("?", repr(d))


def from_dump(d):
    """probe dump -> model value (maps become association lists)"""
    if d is None or d is True or d is False:
        return d
    if "i" in d:
        return int(d["i"])
    if "f" in d:
        return from_bits(int(d["f"], 16))
    if "s" in d:
        return d["s"]
    if "c" in d:
        return Char(d["c"])
    if "b" in d:
        return Byte(d["b"])
    if "a" in d:
        return Arr([from_dump(x) for x in d["a"]])
    if "m" in d:
        return Map([(from_dump(k), from_dump(x)) for k, x in d["m"]])
    if "fn" in d:
        return Closure()
    if "bi" in d:
        return Builtin(d["bi"])
    if "e" in d:
        return ErrObj(d["e"])
    return Opaque(d.get("o") or d.get("file") or "?")


def show(c):
    """short human form of a canonical value"""
    t = c[0]
    if t == "null":
        return "null"
    if t == "bool":
        return "true" if c[1] else "false"
    if t == "i":
        return str(c[1])
    if t == "f":
        return "NaN" if c[1] == "nan" else repr(from_bits(c[1])) + "f"
    if t == "s":
        return '"%s"' % c[1]
    if t == "c":
        return "'%s'" % chr(c[1])
    if t == "b":
        return "b%d" % c[1]
    if t == "a":
        return "[" + ", ".join(show(x) for x in c[1][:8]) + (", …" if len(c[1]) > 8 else "") + "]"
    if t == "m":
        return "map{" + ", ".join("%s: %s" % (show(k), show(v)) for k, v in c[1][:8]) + "}"
    return "<%s>" % "/".join(str(x) for x in c)


# ---------------------------------------------------------------------------
# literal rendering (p2sh has no escapes; some values need an expression)

def lit(v):
    """source text of an expression that evaluates to v (always usable as an operand)"""
    if v is None:
        return "null"
    if isinstance(v, bool):
        return "true" if v else "false"
    if isinstance(v, int):
        if v == I64_MIN:
            return "(-9223372036854775807 - 1)"
        return str(v) if v >= 0 else "(-%d)" % (-v)
    if isinstance(v, float):
        if v != v:
            return "(1e999 - 1e999)"
        if v == math.inf:
            return "1e999"
        if v == -math.inf:
            return "(-1e999)"
        r = repr(abs(v))
        if "e" in r or "E" in r:
            m, e = r.lower().split("e")
            if "." not in m:
                m += ".0"
            r = "%se%s" % (m, e.replace("+", ""))
        elif "." not in r:
            r += ".0"
        neg = math.copysign(1.0, v) < 0
        return "(-%s)" % r if neg else r
    if isinstance(v, str):
        assert '"' not in v and "\0" not in v
        return '"%s"' % v
    if isinstance(v, Char):
        if v.cp == 0:
            return "char(0)"
        return "'%s'" % chr(v.cp)
    if isinstance(v, Byte):
        if 32 <= v.n < 127:
            return "b'%s'" % chr(v.n)
        return "byte(%d)" % v.n
    if isinstance(v, Arr):
        return "[" + ", ".join(lit(x) for x in v.items) + "]"
    if isinstance(v, Map):
        return "map {" + ", ".join("%s: %s" % (lit(k), lit(x)) for k, x in v.pairs) + "}"
    if isinstance(v, Closure):
        return "fn() { 1 }"
    if isinstance(v, Builtin):
        return v.name
    raise ValueError("no literal for %r" % (v,))
