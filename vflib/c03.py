"""C03 - expressions group according to the documented precedence and associativity.

Oracle = the table in docs/language/expression-precedence.md, used to render every
expression tree (a) with only the parentheses the table requires and (b) fully
parenthesised. The real parser/compiler/VM must (1) parse both texts to the same
tree, (2) evaluate both to the same result, and (3) agree with a direct Python
evaluation of the tree (independent of the repository's AST printer)."""
import itertools

from . import core
from .core import Case
from .opmodel import Alt, RuntimeErr, Unspecified, binop, falsey, unop
from .val import Arr, canon, canon_dump, kind, show

PREC = {"||": 1, "&&": 2, "==": 3, "!=": 3, "<": 3, ">": 3, "<=": 3, ">=": 3, "|": 4, "^": 5, "&": 6,
        "<<": 7, ">>": 7, "+": 8, "-": 8, "*": 9, "/": 9, "%": 9}
BINOPS = list(PREC)
UNOPS = ["!", "-", "~"]
P_ASSIGN, P_UNARY, P_POSTFIX = 0, 10, 11

PRELUDE = "let a = 7; let b = 3; let c = 0; let d = 0; let arr = [10, 20, 30, 40]; let tt = true; fn f(x) { x * 2 + 1 }\nlet __o = [];\n"


def Leaf(v):
    return ("leaf", v)


def rmin(n, ctx=0, side="L"):
    t = n[0]
    if t == "leaf":
        return str(n[1])
    if t == "bin":
        p = PREC[n[1]]
        s = "%s %s %s" % (rmin(n[2], p, "L"), n[1], rmin(n[3], p, "R"))
        need = ctx > p or (ctx == p and side == "R")
        return "(%s)" % s if need else s
    if t == "un":
        s = n[1] + rmin(n[2], P_UNARY, "U")
        return "(%s)" % s if ctx > P_UNARY else s
    if t == "index":
        return "%s[%s]" % (rmin(n[1], P_POSTFIX, "L"), rmin(n[2], 0, "L"))
    if t == "call":
        return "f(%s)" % rmin(n[1], 0, "L")
    if t == "ifx":
        # an if / else-if / else expression is a primary expression: it needs no parentheses as an operand
        txt = "if %s { %s }" % (rmin(n[1], 0, "L"), rmin(n[2], 0, "L"))
        if n[3] is not None:
            txt += " else if %s { %s }" % (rmin(n[3][0], 0, "L"), rmin(n[3][1], 0, "L"))
        return txt + " else { %s }" % rmin(n[4], 0, "L")
    if t == "matchx":
        return "match %s { 1 => %s, _ => %s }" % (rmin(n[1], 0, "L"), rmin(n[2], 0, "L"), rmin(n[3], 0, "L"))
    if t == "assign":
        s = "%s = %s" % (n[1], rmin(n[2], P_ASSIGN, "R"))
        # '=' is right associative: as the right operand of another '=' it needs no parentheses
        need = ctx > P_ASSIGN
        return "(%s)" % s if need else s
    raise ValueError(t)


def rfull(n):
    t = n[0]
    if t == "leaf":
        return "(%s)" % n[1]
    if t == "bin":
        return "(%s %s %s)" % (rfull(n[2]), n[1], rfull(n[3]))
    if t == "un":
        return "(%s%s)" % (n[1], rfull(n[2]))
    if t == "index":
        return "(%s[%s])" % (rfull(n[1]), rfull(n[2]))
    if t == "call":
        return "(f(%s))" % rfull(n[1])
    if t == "ifx":
        txt = "(if %s { %s }" % (rfull(n[1]), rfull(n[2]))
        if n[3] is not None:
            txt += " else if %s { %s }" % (rfull(n[3][0]), rfull(n[3][1]))
        return txt + " else { %s })" % rfull(n[4])
    if t == "matchx":
        return "(match %s { 1 => %s, _ => %s })" % (rfull(n[1]), rfull(n[2]), rfull(n[3]))
    if t == "assign":
        return "(%s = %s)" % (n[1], rfull(n[2]))
    raise ValueError(t)


def ev(n, env):
    t = n[0]
    if t == "leaf":
        v = n[1]
        if isinstance(v, str):
            return env[v]
        return v
    if t == "bin":
        op = n[1]
        if op == "&&":
            l = ev(n[2], env)
            return l if falsey(l) else ev(n[3], env)
        if op == "||":
            l = ev(n[2], env)
            return ev(n[3], env) if falsey(l) else l
        if op in ("<", "<="):     # documented evaluation order: right operand first
            r = ev(n[3], env)
            l = ev(n[2], env)
        else:
            l = ev(n[2], env)
            r = ev(n[3], env)
        v = binop(op, l, r)
        if isinstance(v, Alt):
            raise Unspecified("alt")
        return v
    if t == "un":
        return unop(n[1], ev(n[2], env))
    if t == "index":
        base = ev(n[1], env)
        i = ev(n[2], env)
        if kind(base) != "array" or kind(i) != "int" or not (0 <= i < len(base.items)):
            raise RuntimeErr("index")
        return base.items[i]
    if t == "call":
        x = ev(n[1], env)
        v = binop("+", binop("*", x, 2), 1)
        if isinstance(v, Alt):
            raise Unspecified("alt")
        return v
    if t == "ifx":
        if not falsey(ev(n[1], env)):
            return ev(n[2], env)
        if n[3] is not None and not falsey(ev(n[3][0], env)):
            return ev(n[3][1], env)
        return ev(n[4], env)
    if t == "matchx":
        sv = ev(n[1], env)
        return ev(n[2], env) if (kind(sv) in ("int", "float") and sv == 1) else ev(n[3], env)
    if t == "assign":
        v = ev(n[2], env)
        env[n[1]] = v
        return v
    raise ValueError(t)


def has_assign(n):
    if n[0] == "assign":
        return True
    return any(has_assign(x) for x in n[1:] if isinstance(x, tuple))


def uses_shortcircuit_over_assign(n, under=False):
    """an assignment in the right operand of && / || may or may not run: handled by ev, fine"""
    return False


def run(chk):
    rng = chk.rng
    quick = chk.tier == "quick"
    chk.rule = ("expression trees over the 18 binary operators, 3 prefix operators, indexing, calls and assignment: all ordered "
                "operator pairs (quick) / triples (thorough) in every nesting shape plus random trees to depth 4; each tree "
                "rendered minimally (documented table) and fully parenthesised; distinct = distinct tree shape with operators")
    chk.assumptions = ["range operators only occur in match patterns and are excluded (C05 covers them)",
                       "the minimal rendering is derived from docs/language/expression-precedence.md only"]
    chk.floor = 1500
    leaves_sets = [(2, 3, 5, 7), (64, 1, 0, 2), ("a", "b", 11, 13), (1, 1, 1, 1)]
    trees = []
    # all ordered pairs, left- and right-nested
    for o1, o2 in itertools.product(BINOPS, BINOPS):
        for ls in (leaves_sets if not quick else leaves_sets[:3]):
            x, y, z, _ = [Leaf(v) for v in ls]
            trees.append(("bin", o2, ("bin", o1, x, y), z))
            trees.append(("bin", o1, x, ("bin", o2, y, z)))
    # prefix operators over / under every binary operator
    for u in UNOPS:
        for o in BINOPS:
            for ls in leaves_sets[:2]:
                x, y, _, _ = [Leaf(v) for v in ls]
                trees.append(("un", u, ("bin", o, x, y)))
                trees.append(("bin", o, ("un", u, x), y))
                trees.append(("bin", o, x, ("un", u, y)))
        for u2 in UNOPS:
            trees.append(("un", u, ("un", u2, Leaf(5))))
            trees.append(("un", u, ("un", u2, ("index", Leaf("arr"), Leaf(1)))))
    # postfix on / under every shape
    for o in BINOPS:
        trees.append(("bin", o, ("index", Leaf("arr"), Leaf(1)), Leaf(3)))
        trees.append(("bin", o, Leaf(3), ("index", Leaf("arr"), Leaf(2))))
        trees.append(("index", Leaf("arr"), ("bin", o, Leaf(1), Leaf(2))))
        trees.append(("index", ("bin", o, Leaf("arr"), Leaf("arr")), Leaf(5)))
        trees.append(("call", ("bin", o, Leaf(1), Leaf(2))))
        trees.append(("bin", o, ("call", Leaf(2)), Leaf(3)))
        trees.append(("bin", o, Leaf(3), ("call", Leaf(2))))
        # assignment under every operator, and chains
        trees.append(("bin", o, Leaf(3), ("assign", "c", Leaf(5))))
        trees.append(("bin", o, ("assign", "c", Leaf(5)), Leaf(3)))
        trees.append(("assign", "c", ("bin", o, Leaf(5), Leaf(3))))
        trees.append(("assign", "c", ("assign", "d", ("bin", o, Leaf(5), Leaf(3)))))
    for u in UNOPS:
        trees.append(("un", u, ("index", Leaf("arr"), Leaf(0))))
        trees.append(("un", u, ("call", Leaf(0))))
        trees.append(("index", Leaf("arr"), ("un", u, Leaf(0))))
        trees.append(("assign", "c", ("un", u, Leaf(4))))
        trees.append(("un", u, ("assign", "c", Leaf(4))))
    # if / else-if chains and match expressions as operands, index targets and operands of prefix operators
    for cond1 in (Leaf(1), Leaf(0)):
        for cond2 in (Leaf(1), Leaf(0)):
            chain = ("ifx", cond1, Leaf(10), (cond2, Leaf(20)), Leaf(30))
            plain = ("ifx", cond1, Leaf(10), None, Leaf(30))
            achain = ("ifx", cond1, Leaf("arr"), (cond2, Leaf("arr")), Leaf("arr"))
            for o in BINOPS:
                for ifx in (chain, plain):
                    trees.append(("bin", o, ifx, Leaf(3)))
                    trees.append(("bin", o, Leaf(3), ifx))
                    trees.append(("bin", o, ifx, ifx))
            trees.append(("index", achain, Leaf(1)))
            trees.append(("index", Leaf("arr"), ("ifx", cond1, Leaf(1), (cond2, Leaf(2)), Leaf(3))))
            for u in UNOPS:
                trees.append(("un", u, chain))
            trees.append(("call", chain))
            trees.append(("assign", "c", ("bin", "+", chain, Leaf(100))))
    for sv in (1, 2):
        mx = ("matchx", Leaf(sv), Leaf(10), Leaf(20))
        for o in BINOPS:
            trees.append(("bin", o, mx, Leaf(3)))
            trees.append(("bin", o, Leaf(3), mx))
    trees.append(("assign", "c", ("assign", "d", Leaf(9))))
    trees.append(("index", ("index", Leaf("arr"), Leaf(0)), Leaf(0)))
    if not quick:
        for o1, o2, o3 in itertools.product(BINOPS, BINOPS, BINOPS):
            w, x, y, z = [Leaf(v) for v in (2, 3, 5, 7)]
            trees.append(("bin", o3, ("bin", o2, ("bin", o1, w, x), y), z))
            trees.append(("bin", o1, w, ("bin", o2, x, ("bin", o3, y, z))))
            trees.append(("bin", o2, ("bin", o1, w, x), ("bin", o3, y, z)))
            trees.append(("bin", o3, ("bin", o1, w, ("bin", o2, x, y)), z))
            trees.append(("bin", o1, w, ("bin", o3, ("bin", o2, x, y), z)))

    def rand_tree(d, allow_assign=True):
        k = rng.random()
        if d == 0 or k < 0.15:
            return Leaf(rng.choice([0, 1, 2, 3, 5, 7, 11, 64, "a", "b"]))
        if k < 0.70:
            return ("bin", rng.choice(BINOPS), rand_tree(d - 1, allow_assign), rand_tree(d - 1, allow_assign))
        if k < 0.82:
            return ("un", rng.choice(UNOPS), rand_tree(d - 1, allow_assign))
        if k < 0.89:
            return ("index", Leaf("arr"), rand_tree(d - 1, allow_assign))
        if k < 0.95:
            return ("call", rand_tree(d - 1, allow_assign))
        if allow_assign:
            return ("assign", rng.choice(["c", "d"]), rand_tree(d - 1, False))
        return Leaf(3)
    for _ in range(3000 if quick else 120000):
        trees.append(rand_tree(rng.randint(2, 4)))

    # long runs of prefix operators (beyond any small unrolling bound) and long left spines of binary operators with a
    # relational operator inside
    for L in (31, 32, 33, 34, 40, 45, 60):
        for pat in ("-~", "~-", "--~", "~~-", "-"):
            n = Leaf(5)
            for k in range(L):
                n = ("un", pat[k % len(pat)], n)
            trees.append(n)
            trees.append(("bin", "+", n, Leaf(1)))
        for inner in ("<", "<=", ">", ">=", "=="):
            n = ("bin", inner, Leaf(1), Leaf(2))
            for k in range(L):
                n = ("bin", "==" if k % 3 else "!=", n, Leaf("tt"))
            trees.append(n)
            m = ("bin", inner, Leaf(2), Leaf(1))
            for k in range(L):
                m = ("bin", rng.choice(["==", "!=", "&&", "||"]), m, Leaf("tt"))
            trees.append(m)
        n = Leaf(1)
        for k in range(L):
            n = ("bin", "+-*"[k % 3], n, Leaf(k % 5 + 1))
        trees.append(("bin", "<", n, Leaf(1000)))
    # the same trees are also written inside other syntactic contexts (each context yields the value of the expression)
    CONTEXTS = ["%s", "match 1 { 1 => %s, _ => 0 }", "match 2 { 1 => 0, _ => { %s } }", "if true { %s } else { 0 }",
                "[0, %s][1]", "(fn() { %s })()", "(map {1: %s})[1]", "[%s, 0][0]", "if false { 0 } else if true { %s }",
                "match 1 { 1 | 2 => %s, _ => 0 }", "match 1 { 3 | 4 => 0, 1 | 2 => %s }", "[match 5 { 1 | 2 => 0 }, %s][1]", "[match 5 { 1 => 0, _ => 1 }, %s][1]",
                "[match 'q' { 'a' | 'b' | 'c' => 0 }, match 1 { 7 | 8 => 0, 1 | 9 => %s }][1]"]
    NEW_CTX = range(9, 14)
    base = list(trees)
    ctx_of = [0] * len(base)
    # every operator pair, in both nestings, inside each of the contexts that follow / sit in a match with alternation
    for cx in NEW_CTX:
        for o1, o2 in itertools.product(BINOPS, BINOPS):
            x, y, z = Leaf(2), Leaf(3), Leaf(5)
            for t_ in (("bin", o2, ("bin", o1, x, y), z), ("bin", o1, x, ("bin", o2, y, z))):
                trees.append(t_)
                ctx_of.append(cx)
    n_ctx = len(base) if not quick else min(len(base), 2500)
    for k in range(n_ctx):
        t = base[k] if not quick else base[rng.randrange(len(base))]
        trees.append(t)
        ctx_of.append(1 + (k % (len(CONTEXTS) - 1)))
    cases = []
    for i, t in enumerate(trees):
        for which, text in (("m", rmin(t)), ("f", rfull(t))):
            src = PRELUDE + "push(__o, %s);\npush(__o, c); push(__o, d);" % (CONTEXTS[ctx_of[i]] % text)
            cases.append(Case("%s%d" % (which, i), src, {"globals": "__o", "ast": 1, "steps": 20000}))
    res = core.run_cases(cases)
    differ = 0
    for i, t in enumerate(trees):
        rm, rf = res.get("m%d" % i), res.get("f%d" % i)
        tmin, tfull = CONTEXTS[ctx_of[i]] % rmin(t), CONTEXTS[ctx_of[i]] % rfull(t)
        if rm is None or rf is None:
            chk.inconc("missing result")
            continue
        ocm, ocf = rm.get("outcome"), rf.get("outcome")
        if ocf in ("parse_errors", "compile_error"):
            chk.inconc("fully parenthesised text rejected")
            if chk.inconclusive["fully parenthesised text rejected"] < 3:
                chk.sample({"rejected_full": tfull, "diag": rf.get("diag")})
            continue

        def shape(n):
            if n[0] == "leaf":
                return "_"
            if n[0] in ("bin", "un"):
                return "(%s %s)" % (n[1], " ".join(shape(x) for x in n[2:]))
            if n[0] == "assign":
                return "(= %s)" % shape(n[2])
            if n[0] == "ifx":
                return "(%s)" % ("if-chain" if n[3] is not None else "if-else")
            if n[0] == "matchx":
                return "(match)"
            return "(%s %s)" % (n[0], " ".join(shape(x) for x in n[1:]))
        sh = shape(t) + ("" if ctx_of[i] == 0 else " in " + CONTEXTS[ctx_of[i]].replace("%s", "_"))
        chk.observed(sh)
        if i % 997 == 0:
            chk.sample({"minimal": tmin, "full": tfull, "outcome": ocm,
                        "value": show(canon_dump(rm["globals"]["__o"])) if ocm == "ok" else rm.get("rt", rm.get("diag"))})
        if ocm in ("parse_errors", "compile_error"):
            chk.violation("minimal-text-rejected|" + sh, "minimally parenthesised text is rejected: %s (%s)" % (tmin, rm.get("diag")),
                          {"minimal": tmin, "full": tfull, "result": rm})
            continue
        if ocm == "panic" or ocf == "panic":
            continue  # crash freedom is C08's
        # (1) same tree (the AST printer shows the grouping; the prelude is common)
        am, af = rm.get("ast", ""), rf.get("ast", "")
        # (2) same evaluation
        same_eval = (ocm == ocf) and (ocm != "ok" or canon_dump(rm["globals"]["__o"]) == canon_dump(rf["globals"]["__o"]))
        if am != af or not same_eval:
            chk.violation("grouping|" + sh,
                          "minimal text groups differently from the documented table: %s  vs  %s" % (tmin, tfull),
                          {"minimal": tmin, "full": tfull, "ast_minimal": am[-300:], "ast_full": af[-300:],
                           "eval_minimal": rm.get("globals") or rm.get("rt"), "eval_full": rf.get("globals") or rf.get("rt")})
            continue
        # (3) direct evaluation of the tree
        env = {"a": 7, "b": 3, "c": 0, "d": 0, "arr": Arr([10, 20, 30, 40]), "tt": True}
        try:
            v = ev(t, env)
            exp = ("ok", ("a", (canon(v), canon(env["c"]), canon(env["d"]))))
        except RuntimeErr:
            exp = ("rt_error", None)
        except Unspecified:
            chk.count("direct_eval_unspecified")
            continue
        chk.count("direct_eval_compared")
        if exp[0] == "ok":
            differ += 1
        if ocm != exp[0] or (ocm == "ok" and canon_dump(rm["globals"]["__o"]) != exp[1]):
            chk.violation("direct-eval|" + sh,
                          "value of %s differs from the direct evaluation of the documented grouping %s" % (tmin, tfull),
                          {"minimal": tmin, "full": tfull, "expected": repr(exp), "observed": rm.get("globals") or rm.get("rt")})
    chk.count("trees_with_a_value", differ)
