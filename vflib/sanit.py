"""Sanitizer sweeps (DESIGN section 8): the probe rebuilt under AddressSanitizer and
run under Miri, fed with the corpus of the crash-freedom checks (C01, C08).

The tree under test has no `unsafe`; these sweeps exist for the class of change
that breaks "no out-of-bounds access / never aborts" *without* a panic
(get_unchecked, transmuted opcodes, unchecked UTF-8). They run in the thorough
tier, and in the quick tier as soon as `unsafe` appears under /repo/src.

Verdict discipline: only an unambiguous memory-error report is a violation
(ASan: *-buffer-overflow, use-after-*, double-free, ...; Miri: "Undefined
Behavior"). Panics, budget stops and stack exhaustion under the sanitizer's
larger frames are the business of the ordinary monitors and are only counted
here. A sweep that cannot be built or that observed no case is inconclusive.
"""
import os
import re
import shutil
import subprocess
from concurrent.futures import ThreadPoolExecutor

from . import core

ASAN_BAD = ("heap-buffer-overflow", "stack-buffer-overflow", "global-buffer-overflow", "heap-use-after-free", "stack-use-after-return",
            "stack-use-after-scope", "use-after-poison", "container-overflow", "double-free", "alloc-dealloc-mismatch", "bad-free",
            "attempting free", "attempting double-free", "dynamic-stack-buffer-overflow", "intra-object-overflow", "negative-size-param",
            "memcpy-param-overlap", "invalid-pointer-pair", "unknown-crash", "wild")


def _asan_kind(report):
    m = re.search(r"ERROR: AddressSanitizer:? (attempting [a-z\-]+|[A-Za-z\-]+)", report)
    return m.group(1).strip() if m else "unparsed"


def _first_repo_frame(report):
    for m in re.finditer(r"#\d+ 0x[0-9a-f]+ in (\S+) (\S+)", report):
        fn, loc = m.group(1), m.group(2)
        if "/src/" in loc and ("/repo/" in loc or core.REPO in loc):
            return "%s@%s" % (re.sub(r"::h[0-9a-f]{16}$", "", fn)[-60:], os.path.basename(loc.split(":")[0]))
    return "no-repo-frame"


def _note(chk, text):
    chk.extra.setdefault("notes", []).append(text)


def want_quick():
    """Adaptive trigger for the quick tier."""
    return core.repo_has_unsafe()


def asan_sweep(chk, cases, label, limit=None):
    """Run `cases` (probe Case objects) through the ASan build of the probe."""
    try:
        core.build_probe_asan()
    except core.BuildError as ex:
        chk.count("asan: build failed (sweep not run)")
        _note(chk, "ASan build of the probe failed: %s" % str(ex)[-300:])
        return
    if limit and len(cases) > limit:
        step = len(cases) / float(limit)
        cases = [cases[int(i * step)] for i in range(limit)]
    work = core.scratch_dir()
    try:
        log = os.path.join(work, "asan")
        env = dict(os.environ, ASAN_OPTIONS="log_path=%s:halt_on_error=1:abort_on_error=1:detect_leaks=0:allocator_may_return_null=1:"
                   "detect_stack_use_after_return=0:symbolize=1" % log, ASAN_SYMBOLIZER_PATH=shutil.which("llvm-symbolizer") or "/usr/bin/llvm-symbolizer-14",
                   RUST_BACKTRACE="0")
        res = core.run_cases(cases, timeout=900, env=env, max_hangs=1, probe_cmd=[core.PROBE_ASAN], san_log=log)
        n_run = 0
        kinds = {}
        for c in cases:
            r = res.get(c.id)
            if r is None:
                continue
            oc = r.get("outcome")
            if oc in ("ok", "rt_error", "budget", "parse_errors", "compile_error", "panic"):
                n_run += 1
                chk.observed(("asan", label, oc))
                continue
            rep = r.get("san")
            if oc == "died" and rep:
                kind = _asan_kind(rep)
                kinds[kind] = kinds.get(kind, 0) + 1
                if any(kind.startswith(b) for b in ASAN_BAD):
                    frame = _first_repo_frame(rep)
                    chk.violation("asan|%s|%s" % (kind, frame), "AddressSanitizer reports %s in %s while running the program" % (kind, frame),
                                  {"src": core.short(c.src, 3000), "cmd": c.cmd, "flags": c.flags, "report": rep[:3000]})
                else:
                    chk.count("asan: %s under the sanitizer's frames (not judged here)" % kind)
            elif oc in ("died", "hang", "skipped"):
                chk.count("asan: probe %s without a report (not judged here)" % oc)
        chk.count("asan_cases_run", n_run)
        if n_run == 0:
            chk.inconc("ASan sweep observed no case")
    finally:
        shutil.rmtree(work, ignore_errors=True)


MIRI_TARGET = os.path.join(core.BUILD, "probe-miri")


def _miri_env():
    return dict(core.CARGO_ENV, CARGO_TARGET_DIR=MIRI_TARGET, P2SH_SRC=core.REPO, MIRIFLAGS="-Zmiri-disable-isolation", RUST_BACKTRACE="0")


def miri_sweep(chk, cases, label, limit=48, per_proc=3, timeout=1500):
    """Run a slice of `cases` under Miri (about 30 s start-up plus 10-30 s per case: keep it small)."""
    if len(cases) > limit:
        step = len(cases) / float(limit)
        cases = [cases[int(i * step)] for i in range(limit)]
    lock_src = os.path.join(core.REPO, "Cargo.lock")
    if os.path.exists(lock_src):
        shutil.copyfile(lock_src, os.path.join(core.PROBE_DIR, "Cargo.lock"))
    cmd = ["cargo", "+nightly", "miri", "run", "--offline"]
    # build once (an empty input), then shard
    try:
        b = subprocess.run(cmd, cwd=core.PROBE_DIR, env=_miri_env(), stdin=subprocess.DEVNULL, stdout=subprocess.PIPE, stderr=subprocess.PIPE, timeout=timeout)
    except subprocess.TimeoutExpired:
        chk.count("miri: build timed out (sweep not run)")
        return
    if b.returncode != 0:
        chk.count("miri: build failed (sweep not run)")
        _note(chk, "Miri build of the probe failed: %s" % b.stderr.decode("utf-8", "replace")[-300:])
        return
    groups = [cases[i:i + per_proc] for i in range(0, len(cases), per_proc)]
    work = core.scratch_dir()

    def one(k):
        inp = os.path.join(work, "in-%d" % k)
        with open(inp, "wb") as f:
            for c in groups[k]:
                f.write(c.encode())
        with open(inp, "rb") as fi:
            try:
                p = subprocess.run(cmd, cwd=core.PROBE_DIR, env=_miri_env(), stdin=fi, stdout=subprocess.PIPE, stderr=subprocess.PIPE, timeout=timeout)
                return k, p.returncode, p.stdout.decode("utf-8", "replace"), p.stderr.decode("utf-8", "replace")
            except subprocess.TimeoutExpired:
                return k, None, "", "timeout"
    try:
        n_run = 0
        with ThreadPoolExecutor(max_workers=core.NCPU) as ex:
            for k, rc, out, err in ex.map(one, range(len(groups))):
                ended = set(l[4:] for l in out.splitlines() if l.startswith("END "))
                n_run += len(ended)
                for c in groups[k]:
                    if c.id in ended:
                        chk.observed(("miri", label, "ran"))
                if "Undefined Behavior" in err:
                    m = re.search(r"error: Undefined Behavior: (.*)", err)
                    what = m.group(1)[:120] if m else "?"
                    loc = re.search(r"--> (\S+?):\d+:\d+", err)
                    where = os.path.basename(loc.group(1)) if loc else "?"
                    begun = [l[6:] for l in out.splitlines() if l.startswith("BEGIN ")]
                    culprit = next((c for c in groups[k] if begun and c.id == begun[-1]), groups[k][0])
                    chk.violation("miri|%s|%s" % (re.sub(r"0x[0-9a-f]+|alloc\d+|\d+", "N", what)[:60], where),
                                  "Miri reports undefined behaviour (%s) at %s while running the program" % (what, where),
                                  {"src": core.short(culprit.src, 3000), "cmd": culprit.cmd, "flags": culprit.flags, "report": err[-3000:]})
                elif rc is None:
                    chk.count("miri: process timed out (not judged)")
                elif rc != 0 and "unsupported operation" in err:
                    chk.count("miri: unsupported operation (not judged)")
        chk.count("miri_cases_run", n_run)
        if n_run == 0:
            chk.inconc("Miri sweep observed no case")
    finally:
        shutil.rmtree(work, ignore_errors=True)
