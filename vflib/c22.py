"""C22 - operating-system I/O failures become error objects, not crashes.

Fault enumeration: every (builtin, failing target) pair of the matrix below is
driven through the real binary (dev and release). For each the call must
return a value e with is_error(e) == true, the program must continue (a
marker after the call is observed on stderr) and nothing may panic or raise a
runtime error. Sequences of calls let error objects flow into later calls."""
import os
import shutil
import stat
import struct

from . import core, pkt
from .val import lit

LEVEL = "fault_enumeration"


def drop_to_nobody():
    os.setgid(65534)
    os.setuid(65534)


def run(chk):
    rng = chk.rng
    quick = chk.tier == "quick"
    chk.rule = ("(builtin x OS failure) matrix: open/read/read_line/read_to_string/write/flush/pcap_open/pcap_stream/pcap_read_next/"
                "pcap_read_all/pcap_write x {ENOENT, EISDIR, EEXIST, ENOTDIR, ENOSPC (/dev/full as file and as stdout), EACCES (child runs "
                "as uid nobody), closed stdin, empty / short / garbage pcap header, caplen > snaplen, truncated record}, enumerated "
                "completely in both tiers and both build profiles, plus sampled sequences of 2-6 faulty and healthy calls; distinct = "
                "distinct (builtin, fault, profile)")
    chk.assumptions = ["the marker lines are written with eprintln so that a full stdout cannot hide them",
                       "EACCES needs the child to drop privileges to uid nobody; when that is impossible the rows are reported as not exercised"]
    chk.floor = 60
    chk.rule += '; plus flush / write on handles that are not regular files (/dev/null, /dev/zero, /dev/full with nothing buffered, a FIFO, /dev/stdout, /dev/stderr; empty, after a write, twice, write after flush): a value and DONE, never a runtime error'
    chk.rule += '; plus standard input that is a directory for every reader of stdin, records whose captured length exceeds the snap length while the wire length does not (files and stdin streams)'
    work = core.scratch_dir()
    os.chmod(work, 0o755)
    try:
        existing = os.path.join(work, "existing.txt")
        open(existing, "wb").write(b"hello\nworld\n")
        adir = os.path.join(work, "adir")
        os.mkdir(adir)
        missing = os.path.join(work, "no", "such", "file")
        notdir = os.path.join(existing, "inside")
        garbage = os.path.join(work, "garbage.pcap")
        open(garbage, "wb").write(b"this is not a pcap file at all, but it is longer than 24 bytes\n")
        empty = os.path.join(work, "empty.pcap")
        open(empty, "wb").write(b"")
        shorth = os.path.join(work, "short.pcap")
        open(shorth, "wb").write(pkt.pcap_header()[:17])
        good = os.path.join(work, "good.pcap")
        open(good, "wb").write(pkt.pcap_file([(1, 2, b"x" * 60), (3, 4, b"y" * 60)]))
        oversize = os.path.join(work, "oversize.pcap")
        open(oversize, "wb").write(pkt.pcap_header(snaplen=10) + pkt.pcap_record(1, 2, b"z" * 60))
        trunc = os.path.join(work, "trunc.pcap")
        open(trunc, "wb").write(pkt.pcap_file([(1, 2, b"x" * 60)])[:-10])
        secret = os.path.join(work, "secret.txt")
        open(secret, "wb").write(b"top secret\n")
        os.chmod(secret, 0o600)
        rodir = os.path.join(work, "rodir")
        os.mkdir(rodir)
        os.chmod(rodir, 0o555)
        secret_pcap = os.path.join(work, "secret.pcap")
        open(secret_pcap, "wb").write(pkt.pcap_file([(1, 2, b"x" * 60)]))
        os.chmod(secret_pcap, 0o600)
        big = "\"w\" * 20000"
        PKT = "pcap_read_next(pcap_open(%s))" % lit(good)
        # (builtin, fault, call expression, environment)
        M = [
            ("open", "ENOENT", "open(%s)" % lit(missing), {}),
            ("open", "ENOENT-w", "open(%s, \"w\")" % lit(missing), {}),
            ("open", "ENOENT-x", "open(%s, \"x\")" % lit(missing), {}),
            ("open", "ENOENT-a", "open(%s, \"a\")" % lit(missing), {}),
            ("open", "EISDIR-w", "open(%s, \"w\")" % lit(adir), {}),
            ("open", "EISDIR-a", "open(%s, \"a\")" % lit(adir), {}),
            ("open", "EISDIR-x", "open(%s, \"x\")" % lit(adir), {}),
            ("open", "EEXIST", "open(%s, \"x\")" % lit(existing), {}),
            ("open", "ENOTDIR", "open(%s)" % lit(notdir), {}),
            ("open", "ENOTDIR-w", "open(%s, \"w\")" % lit(notdir), {}),
            ("open", "empty-path", "open(\"\")", {}),
            ("read", "EISDIR", "read(open(%s))" % lit(adir), {}),
            ("read", "EISDIR-n", "read(open(%s), 10)" % lit(adir), {}),
            ("read_line", "EISDIR", "read_line(open(%s))" % lit(adir), {}),
            ("read_to_string", "EISDIR", "read_to_string(open(%s))" % lit(adir), {}),
            ("write", "ENOSPC-big", "write(open(\"/dev/full\", \"w\"), %s)" % big, {}),
            ("flush", "ENOSPC", "flush(fw)", {"pre": "let fw = open(\"/dev/full\", \"w\"); write(fw, \"abc\");"}),
            ("write", "ENOSPC-after-buffered", "write(fw, %s)" % big, {"pre": "let fw = open(\"/dev/full\", \"w\"); write(fw, \"abc\");"}),
            # small writes to stdout are buffered: the device is met by flush(stdout), or by a write that exceeds the buffer
            ("write", "ENOSPC-stdout-big", "write(stdout, %s)" % big, {"stdout": "/dev/full"}),
            ("write", "ENOSPC-stdout-bytes", "write(stdout, bigarr)", {"stdout": "/dev/full", "pre": "let bigarr = encode_utf8(\"w\" * 20000);"}),
            ("write", "ENOSPC-stdout-packet", "write(stdout, bigp)", {"stdout": "/dev/full", "pre": "let bigp = pcap_read_next(pcap_open(%s));" % lit(os.path.join(work, "bigrec.pcap"))}),
            ("flush", "ENOSPC-stdout", "flush(stdout)", {"stdout": "/dev/full", "pre": "write(stdout, \"abc\");"}),
            ("flush", "ENOSPC-stdout-after-bytes", "flush(stdout)", {"stdout": "/dev/full", "pre": "write(stdout, [byte(65), byte(66)]);"}),
            ("pcap_open", "ENOENT", "pcap_open(%s)" % lit(missing), {}),
            ("pcap_open", "ENOENT-w", "pcap_open(%s, \"w\")" % lit(missing), {}),
            ("pcap_open", "EISDIR", "pcap_open(%s)" % lit(adir), {}),
            ("pcap_open", "EISDIR-w", "pcap_open(%s, \"w\")" % lit(adir), {}),
            ("pcap_open", "EEXIST", "pcap_open(%s, \"x\")" % lit(existing), {}),
            ("pcap_open", "ENOTDIR", "pcap_open(%s)" % lit(notdir), {}),
            ("pcap_open", "non-pcap-content", "pcap_open(%s)" % lit(garbage), {}),
            ("pcap_open", "empty-file", "pcap_open(%s)" % lit(empty), {}),
            ("pcap_open", "short-header", "pcap_open(%s)" % lit(shorth), {}),
            ("pcap_open", "text-file", "pcap_open(%s)" % lit(existing), {}),
            ("pcap_read_next", "caplen>snaplen", "pcap_read_next(pcap_open(%s))" % lit(oversize), {}),
            ("pcap_read_all", "caplen>snaplen", "pcap_read_all(pcap_open(%s))" % lit(oversize), {}),
            ("pcap_stream", "closed-stdin", "pcap_stream(stdin)", {"stdin": "closed"}),
            ("pcap_stream", "empty-stdin", "pcap_stream(stdin)", {"stdin": b""}),
            ("pcap_stream", "garbage-stdin", "pcap_stream(stdin)", {"stdin": b"GET / HTTP/1.1\r\nHost: example\r\n\r\n"}),
            ("pcap_stream", "short-stdin", "pcap_stream(stdin)", {"stdin": pkt.pcap_header()[:10]}),
            ("pcap_write", "ENOSPC-stdout-big", "pcap_write(ps, bigp)", {"stdout": "/dev/full", "pre": "let ps = pcap_stream(stdout); let bigp = pcap_read_next(pcap_open(%s));" % lit(os.path.join(work, "bigrec.pcap"))}),
            ("flush", "ENOSPC-stdout-after-pcap_stream", "flush(stdout)", {"stdout": "/dev/full", "pre": "let ps = pcap_stream(stdout);"}),
            ("pcap_read_next", "oversize-on-stdin", "pcap_read_next(pcap_stream(stdin))", {"stdin": pkt.pcap_header(snaplen=10) + pkt.pcap_record(1, 2, b"z" * 60)}),
            ("pcap_read_next", "oversize-and-short-on-stdin", "pcap_read_next(pcap_stream(stdin))", {"stdin": pkt.pcap_header(snaplen=10) + pkt.pcap_record(1, 2, b"z" * 5, 60, 60)}),
            ("pcap_read_all", "oversize-and-short-on-stdin", "pcap_read_all(pcap_stream(stdin))", {"stdin": pkt.pcap_header(snaplen=10) + pkt.pcap_record(1, 2, b"z" * 5, 60, 60)}),
            ("pcap_read_all", "oversize-on-stdin", "pcap_read_all(pcap_stream(stdin))", {"stdin": pkt.pcap_header(snaplen=10) + pkt.pcap_record(1, 2, b"z" * 60)}),
            # stdout is line buffered: a line break pushes what is buffered to the device
            ("write", "ENOSPC-stdout-newline-byte", "write(stdout, byte(10))", {"stdout": "/dev/full"}),
            ("write", "ENOSPC-stdout-newline-string", "write(stdout, nl)", {"stdout": "/dev/full", "pre": "let nl = decode_utf8([byte(120), byte(10)]);"}),
            ("write", "ENOSPC-stdout-newline-bytes", "write(stdout, [byte(120), byte(10)])", {"stdout": "/dev/full"}),
            ("write", "ENOSPC-stdout-byte-fills-buffer", "wr_fill()", {"stdout": "/dev/full", "pre": "fn wr_fill() { let i = 0; let r = null; while i < 3000 { r = write(stdout, byte(65)); if is_error(r) { return r; } i = i + 1; } return r; }"}),
            ("write", "EPIPE-stdout-newline-byte", "write(stdout, byte(10))", {"stdout": "epipe"}),
            ("write", "ENOSPC-stderr-big", "write(stderr2, %s)" % big, {"pre": "let stderr2 = open(\"/dev/full\", \"a\");"}),
            ("write", "ENOSPC-big-byte-array", "write(fw, bigarr)", {"pre": "let fw = open(\"/dev/full\", \"w\"); let bigarr = encode_utf8(\"w\" * 10240);"}),
            ("write", "ENOSPC-byte-array-after-buffered", "write(fw, bigarr)", {"pre": "let fw = open(\"/dev/full\", \"w\"); write(fw, \"abc\"); let bigarr = encode_utf8(\"w\" * 9000);"}),
            ("write", "ENOSPC-big-packet", "write(fw, bigp)", {"pre": "let fw = open(\"/dev/full\", \"w\"); let bigp = pcap_read_next(pcap_open(%s));" % lit(os.path.join(work, "bigrec.pcap"))}),
            ("pcap_open", "1-byte-file", "pcap_open(%s)" % lit(os.path.join(work, "stub1")), {}),
            ("pcap_open", "2-byte-file", "pcap_open(%s)" % lit(os.path.join(work, "stub2")), {}),
            ("pcap_open", "3-byte-file", "pcap_open(%s)" % lit(os.path.join(work, "stub3")), {}),
            ("pcap_open", "4-byte-file", "pcap_open(%s)" % lit(os.path.join(work, "stub4")), {}),
            ("pcap_open", "23-byte-file", "pcap_open(%s)" % lit(os.path.join(work, "stub23")), {}),
            ("pcap_open", "magic-only-file", "pcap_open(%s)" % lit(os.path.join(work, "stubm")), {}),
            ("pcap_stream", "1-byte-stdin", "pcap_stream(stdin)", {"stdin": b"\xd4"}),
            ("pcap_stream", "3-byte-stdin", "pcap_stream(stdin)", {"stdin": b"\xd4\xc3\xb2"}),
            ("pcap_stream", "magic-only-stdin", "pcap_stream(stdin)", {"stdin": b"\xd4\xc3\xb2\xa1"}),
            # directories whose size reads as 0 (procfs, sysfs), memory files that cannot be read
            ("read", "EISDIR-proc", "read(open(\"/proc\"))", {}), ("read", "EISDIR-sys", "read(open(\"/sys\"))", {}), ("read", "EISDIR-proc-self", "read(open(\"/proc/self\"))", {}),
            ("read", "EISDIR-proc-n", "read(open(\"/proc\"), 10)", {}), ("read_line", "EISDIR-proc", "read_line(open(\"/proc\"))", {}),
            ("read_to_string", "EISDIR-sys", "read_to_string(open(\"/sys\"))", {}), ("read", "EIO-proc-self-mem", "read(open(\"/proc/self/mem\"))", {}),
            ("read", "EIO-proc-self-mem-n", "read(open(\"/proc/self/mem\"), 16)", {}),
            ("pcap_write", "ENOSPC-big", "pcap_write(pw, bigp)", {"pre": "let pw = pcap_open(\"/dev/full\", \"w\"); let bigp = pcap_read_next(pcap_open(%s));" % lit(os.path.join(work, "bigrec.pcap"))}),
            # a pipe whose reader is gone (EPIPE; SIGPIPE is ignored by the Rust runtime, so the write itself fails)
            ("write", "EPIPE-stdout-big", "write(stdout, %s)" % big, {"stdout": "epipe"}),
            ("write", "EPIPE-stdout-packet", "write(stdout, bigp)", {"stdout": "epipe", "pre": "let bigp = pcap_read_next(pcap_open(%s));" % lit(os.path.join(work, "bigrec.pcap"))}),
            ("flush", "EPIPE-stdout", "flush(stdout)", {"stdout": "epipe", "pre": "write(stdout, \"abc\");"}),
            ("pcap_write", "EPIPE-stdout-big", "pcap_write(ps, bigp)", {"stdout": "epipe", "pre": "let ps = pcap_stream(stdout); let bigp = pcap_read_next(pcap_open(%s));" % lit(os.path.join(work, "bigrec.pcap"))}),
            ("pcap_write", "EPIPE-stdout-many-small", "wr_many()", {"stdout": "epipe", "pre": "let ps = pcap_stream(stdout); let sp = pcap_read_next(pcap_open(%s)); fn wr_many() { let i = 0; let r = null; while i < 400 { r = pcap_write(ps, sp); if is_error(r) { return r; } i = i + 1; } return r; }" % lit(good)}),
            ("open", "EACCES-r", "open(%s)" % lit(secret), {"uid": "nobody"}),
        ]
        M += [("pcap_open", "utf8-text-" + nm[4:], "pcap_open(%s)" % lit(os.path.join(work, nm)), {}) for nm in
              ["txt-%d-%d" % (off, w) for off in range(0, 26) for w in (2, 3, 4)][::(3 if quick else 1)]]
        M += [("pcap_stream", "utf8-text-stdin-%d" % off, "pcap_stream(stdin)", {"stdin": ("x" * off + "\u00e9\u65e5\U0001f496" * 3 + " et la suite du texte").encode("utf-8")}) for off in range(10, 24, (4 if quick else 1))]
        M += [
            ("open", "EACCES-w", "open(%s, \"w\")" % lit(secret), {"uid": "nobody"}),
            ("open", "EACCES-a", "open(%s, \"a\")" % lit(secret), {"uid": "nobody"}),
            ("open", "EACCES-create", "open(%s, \"w\")" % lit(os.path.join(rodir, "new.txt")), {"uid": "nobody"}),
            ("open", "EACCES-x", "open(%s, \"x\")" % lit(os.path.join(rodir, "new2.txt")), {"uid": "nobody"}),
            ("pcap_open", "EACCES", "pcap_open(%s)" % lit(secret_pcap), {"uid": "nobody"}),
            ("pcap_open", "EACCES-w", "pcap_open(%s, \"w\")" % lit(os.path.join(rodir, "new.pcap")), {"uid": "nobody"}),
        ]
        open(os.path.join(work, "bigrec.pcap"), "wb").write(pkt.pcap_file([(1, 2, b"B" * 20000)]))
        for nm, nbytes in (("stub1", 1), ("stub2", 2), ("stub3", 3), ("stub4", 4), ("stub23", 23)):
            open(os.path.join(work, nm), "wb").write(pkt.pcap_header()[:nbytes])
        open(os.path.join(work, "stubm"), "wb").write(b"\xd4\xc3\xb2\xa1")
        texts = []
        for off in range(0, 26):
            for ch in ("\u00e9", "\u65e5", "\U0001f496"):
                t = ("# captures du reseau local, table des flux"[:off].ljust(off, "x") + ch * 4 + " suite du texte, assez longue pour un en-tete complet").encode("utf-8")
                nm = "txt-%d-%d" % (off, len(ch.encode("utf-8")))
                open(os.path.join(work, nm), "wb").write(t)
                texts.append(nm)
        # healthy calls that must NOT be error objects (guards against "everything is an error")
        H = [
            ("open", "healthy", "open(%s)" % lit(existing), {}),
            ("read", "healthy", "read(open(%s))" % lit(existing), {}),
            ("read_line", "healthy", "read_line(open(%s))" % lit(existing), {}),
            ("pcap_open", "healthy", "pcap_open(%s)" % lit(good), {}),
            ("pcap_read_next", "healthy", "pcap_read_next(pcap_open(%s))" % lit(good), {}),
            ("pcap_read_next", "truncated-record-is-null-or-error", "pcap_read_next(pcap_open(%s))" % lit(trunc), {"either": True}),
            ("write", "healthy", "write(open(%s, \"w\"), \"ok\")" % lit(os.path.join(work, "out.txt")), {}),
        ]
        # handles on files that are not regular files (character devices, a FIFO whose reader is this process, the standard
        # streams by path): flush / write may or may not meet an OS failure there - whichever it is, the outcome is a value
        # (error object or not) and the program continues, never a runtime error
        fifo = os.path.join(work, "fifo")
        os.mkfifo(fifo)
        fifo_fd = os.open(fifo, os.O_RDWR | os.O_NONBLOCK)
        for tgt, mode in (("/dev/null", "w"), ("/dev/null", "a"), ("/dev/zero", "w"), ("/dev/full", "w"), (fifo, "w"), ("/dev/stderr", "a"), ("/dev/stdout", "w"),
                          (os.path.join(work, "plain-out.txt"), "w")):
            nm = os.path.basename(tgt) + "-" + mode
            opn = "let sf = open(%s, \"%s\");" % (lit(tgt), mode)
            H += [("flush", "special-%s-empty" % nm, "flush(sf)", {"pre": opn, "either": True}),
                  ("flush", "special-%s-twice" % nm, "flush(sf)", {"pre": opn + " flush(sf);", "either": True})]
            if tgt != "/dev/full":
                H += [("flush", "special-%s-after-write" % nm, "flush(sf)", {"pre": opn + " write(sf, \"abc\");", "either": True}),
                      ("write", "special-%s-after-flush" % nm, "write(sf, \"def\")", {"pre": opn + " write(sf, \"abc\"); flush(sf);", "either": True, "post": "flush(sf);"})]
        # standard input that cannot be read (a directory, a closed descriptor) for every reader of stdin; records whose
        # captured length exceeds the snap length while the wire length does not (and the other way round)
        M += [("read", "EISDIR-stdin", "read(stdin)", {"stdin_dir": adir}), ("read", "EISDIR-stdin-n", "read(stdin, 10)", {"stdin_dir": adir}),
              ("read_line", "EISDIR-stdin", "read_line(stdin)", {"stdin_dir": adir}), ("pcap_stream", "EISDIR-stdin", "pcap_stream(stdin)", {"stdin_dir": adir})]      # (a closed descriptor 0 is not such a case: the Rust runtime reports it to the program as end of input)
        for nm, rec in (("caplen>snaplen>=wirelen", pkt.pcap_record(1, 2, b"z" * 60, 131072, 60)), ("caplen>snaplen>=wirelen-short", pkt.pcap_record(1, 2, b"z" * 5, 200, 5)),
                        ("caplen>snaplen-wirelen-0", pkt.pcap_record(1, 2, b"z" * 120, 120, 0))):
            blob = pkt.pcap_header(snaplen=100) + rec
            fpath = os.path.join(work, "rec-%d.pcap" % len(M))
            open(fpath, "wb").write(blob)
            M += [("pcap_read_next", nm + "-on-stdin", "pcap_read_next(pcap_stream(stdin))", {"stdin": blob}),
                  ("pcap_read_all", nm + "-on-stdin", "pcap_read_all(pcap_stream(stdin))", {"stdin": blob}),
                  ("pcap_read_next", nm, "pcap_read_next(pcap_open(%s))" % lit(fpath), {}), ("pcap_read_all", nm, "pcap_read_all(pcap_open(%s))" % lit(fpath), {})]
        script = os.path.join(work, "s.p2")
        os.chmod(work, 0o755)

        def execute(src, env, release):
            with open(script, "w") as f:
                f.write(src)
            os.chmod(script, 0o644)
            stdin_data = b"unused\n"
            kw = {}
            fin = None
            fout = None
            if isinstance(env.get("stdin"), bytes):
                stdin_data = env["stdin"]
            elif env.get("stdin") == "closed":
                kw["stdin_file"] = None
            elif env.get("stdin_dir"):
                fin = os.open(env["stdin_dir"], os.O_RDONLY)
                kw["stdin_file"] = fin
            if env.get("stdout") == "epipe":
                rfd, wfd = os.pipe()
                os.close(rfd)
                fout = os.fdopen(wfd, "wb")
                kw["stdout_file"] = fout
            elif env.get("stdout"):
                fout = open(env["stdout"], "wb")
                kw["stdout_file"] = fout
            pre = None
            if env.get("uid") == "nobody":
                pre = drop_to_nobody
            if env.get("stdin") == "closed":
                # a closed descriptor 0: spawn through sh, which closes it with '<&-'
                import subprocess
                exe = core.P2SH_REL if release else core.P2SH_DEV
                try:
                    p = subprocess.Popen(["/bin/sh", "-c", "exec \"$0\" \"$1\" <&-", exe, script], stdout=(fout or subprocess.PIPE), stderr=subprocess.PIPE,
                                         preexec_fn=pre)
                    out, err = p.communicate(timeout=30)
                    rr = {"rc": p.returncode, "out": out or b"", "err": err or b"", "timeout": False}
                except subprocess.TimeoutExpired:
                    p.kill()
                    rr = {"rc": None, "out": b"", "err": b"", "timeout": True}
            else:
                rr = core.run_binary([script], stdin_data=stdin_data, release=release, timeout=30, preexec_fn=pre, **kw)
            if fout:
                fout.close()
            if fin is not None:
                os.close(fin)
            return rr

        can_drop = True
        probe_rr = execute("eprintln(\"x\");", {"uid": "nobody"}, False)
        if probe_rr.get("spawn_error") or b"x" not in probe_rr["err"]:
            can_drop = False
        for release in (False, True):
            for (b, fault, call, env), healthy in [(m, False) for m in M] + [(h, True) for h in H]:
                if env.get("uid") == "nobody" and not can_drop:
                    chk.count("not exercised (cannot drop privileges): %s/%s" % (b, fault))
                    continue
                src = "%s\nlet e = %s;\neprintln(\"R {}\", is_error(e));\n%s\neprintln(\"DONE\");\n" % (env.get("pre", ""), call, env.get("post", ""))
                rr = execute(src, env, release)
                if rr["timeout"]:
                    chk.inconc("timeout")
                    continue
                err = rr["err"].decode("utf-8", "replace")
                chk.observed((b, fault, release))
                if not healthy:
                    chk.sample({"builtin": b, "fault": fault, "call": core.short(call, 100), "stderr": err.strip().split("\n")[-2:]}, cap=70)
                crashed = core.crashed(rr)
                if healthy:
                    if env.get("either"):
                        ok = "DONE" in err and not crashed and "Runtime error" not in err
                    else:
                        ok = "R false" in err and "DONE" in err and not crashed
                    if not ok:
                        chk.violation("healthy|%s|%s" % (b, fault), "a healthy %s call does not work: %s" % (b, err[-200:]), {"src": src})
                    continue
                if crashed:
                    chk.violation("crash|%s|%s" % (b, fault), "%s on %s crashes the interpreter: %s" % (b, fault, err.strip()[-220:]), {"src": src, "env": str(env)})
                elif "Runtime error" in err:
                    chk.violation("runtime-error|%s|%s" % (b, fault), "%s on %s is a runtime error instead of an error object: %s" % (b, fault, err.strip()[-200:]),
                                  {"src": src, "env": str(env)})
                elif "R true" not in err:
                    chk.violation("not-an-error-object|%s|%s" % (b, fault), "%s on %s returned a value that is not an error object (stderr %r)" % (b, fault, err[-120:]),
                                  {"src": src, "env": str(env)})
                elif "DONE" not in err:
                    chk.violation("does-not-continue|%s|%s" % (b, fault), "the program does not continue after %s on %s: %s" % (b, fault, err[-200:]), {"src": src})
        # sequences: error objects flow into later calls
        plain = [m for m in M if not m[3]]
        for t in range(40 if quick else 1000):
            n = rng.randint(2, 6)
            lines = []
            for k in range(n):
                b, fault, call, env = rng.choice(plain)
                lines.append("let e%d = %s; eprintln(\"R{} {}\", %d, is_error(e%d));" % (k, call, k, k))
                if rng.random() < 0.5:
                    use = rng.choice(["read(e%d)", "write(e%d, \"x\")", "flush(e%d)", "pcap_read_next(e%d)", "read_line(e%d)", "pcap_write(e%d, e%d)" % (k, k) + "%.0s",
                                      "is_error(e%d)", "len(str(e%d))"]) % k
                    # using an error object as a handle is a usage error (runtime error allowed), never a crash: run it last
                    lines.append("eprintln(\"U\"); %s;" % use if k == n - 1 else "is_error(e%d);" % k)
            src = "\n".join(lines) + "\neprintln(\"DONE\");\n"
            rr = execute(src, {}, t % 2 == 1)
            if rr["timeout"]:
                chk.inconc("timeout")
                continue
            err = rr["err"].decode("utf-8", "replace")
            chk.observed(("sequence", n, t % 2))
            if core.crashed(rr):
                chk.violation("crash|sequence", "a sequence of failing calls crashes the interpreter: %s" % err[-200:], {"src": src})
            else:
                want = ["R%d true" % k for k in range(n)]
                if not all(w in err for w in want):
                    chk.violation("sequence|not-all-errors", "in a sequence of failing calls not every call returned an error object: %s" % err[-300:], {"src": src})
    finally:
        for p in (os.path.join(work, "rodir"),):
            try:
                os.chmod(p, 0o755)
            except OSError:
                pass
        shutil.rmtree(work, ignore_errors=True)
