"""Shared by C15/C16/C17: a model of how a script navigates packet objects
(which accesses yield a layer object, an error object or null - including the
layer cache that the first access to an inner layer fills) and helpers to
generate straight-line p2sh code that never raises by construction."""
from . import pkt

LAYER_PROPS = {k: list(v.keys()) for k, v in pkt.FIELDS.items()}


class Obj:
    """model of a layer object a script holds: kind in eth/vlan/ipv4/ipv6/tcp/udp, start = offset of its header"""

    def __init__(self, kind, start, frame):
        self.kind = kind
        self.start = start
        self.frame = frame
        self.inner = "unset"      # 'unset' | None (null) | Obj | 'error'

    def payload_off(self):
        return self.start + pkt.header_len(self.kind, self.frame, self.start)


def parse_layer(kind, frame, start):
    """what the implementation is expected to build when asked for layer `kind` at `start`:
    an Obj, or 'error' (truncated / malformed header)"""
    if len(frame) < start + pkt.MINLEN[kind]:
        return "error"
    hl = pkt.header_len(kind, frame, start)
    if hl < pkt.MINLEN[kind] or start + hl > len(frame):
        return "error"
    return Obj(kind, start, frame)


def access_inner(obj, name):
    """named inner-layer property on a layer object (vlan/ipv4/ipv6/tcp/udp).
    The first access parses the bytes after the header as `name` and caches the result;
    later accesses return the cache whatever name is used."""
    if obj.inner == "unset":
        obj.inner = parse_layer(name, obj.frame, obj.payload_off())
    return obj.inner


def dollar(frame, n, eth_obj_cache):
    """$n in filter mode: $1 = eth, deeper layers follow the type fields.
    -> Obj | 'error' | None (null); eth_obj_cache is a one-element list holding the packet's eth Obj or 'error'"""
    if eth_obj_cache[0] is None:
        eth_obj_cache[0] = parse_layer("eth", frame, 0)
    cur = eth_obj_cache[0]
    for _ in range(n - 1):
        if cur == "error":
            return "error"      # an error object has no deeper layer: it is what $n yields further down
        if cur is None:
            return None
        if cur.inner != "unset":
            cur = cur.inner
            continue
        nk = pkt.next_kind(cur.kind, cur.frame, cur.start) if cur.kind in pkt.INNER_NAMES else None
        if nk is None:
            return None
        cur = access_inner(cur, nk)
    return cur


def random_reads(rng, frame, var, n_reads, follow_types=0.8):
    """straight-line p2sh statements reading properties of the packet held in `var`.
    Returns (lines, deepest layer kind touched). Every read is predicted not to raise."""
    lines = []
    pk_eth = None       # model of var.eth
    objs = {}           # p2sh variable name -> Obj
    deepest = "packet"
    cnt = [0]

    def fresh():
        cnt[0] += 1
        return "%s_l%d" % (var, cnt[0])
    for _ in range(n_reads):
        k = rng.random()
        if k < 0.15 or pk_eth is None:
            r = rng.choice(["sec", "usec", "nsec", "caplen", "wirelen", "payload", "eth", "eth"])
            if r == "eth":
                if pk_eth is None:
                    pk_eth = parse_layer("eth", frame, 0)
                v = fresh()
                lines.append("let %s = %s.eth;" % (v, var))
                if pk_eth != "error":
                    objs[v] = pk_eth
                    deepest = "eth"
                else:
                    deepest = "eth-error"
            else:
                lines.append("%s.%s;" % (var, r))
            continue
        if not objs:
            lines.append("%s.caplen;" % var)
            continue
        v = rng.choice(list(objs))
        o = objs[v]
        if k < 0.55:
            prop = rng.choice(LAYER_PROPS[o.kind] + ["payload"])
            lines.append("%s.%s;" % (v, prop))
        elif k < 0.6:
            lines.append("format(\"{}\", %s); format(\"{}\", %s);" % (v, var))
        else:
            names = pkt.INNER_NAMES.get(o.kind)
            if not names:
                lines.append("%s.payload;" % v)
                continue
            nk = pkt.next_kind(o.kind, frame, o.start)
            if o.inner != "unset" or (nk is not None and rng.random() < follow_types):
                name = nk if (nk is not None and o.inner == "unset") else rng.choice(names)
            else:
                name = rng.choice(names)
            res = access_inner(o, name)
            nv = fresh()
            lines.append("let %s = %s.%s;" % (nv, v, name))
            if isinstance(res, Obj):
                objs[nv] = res
                deepest = res.kind
            else:
                deepest = (o.kind + "-inner-error")
    return lines, deepest
