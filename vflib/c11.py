"""C11 - pure builtins satisfy their documented contracts and round-trip laws.

Oracle: a contract table transcribed from docs/language/builtins.md (DESIGN.md
appendix A). Each call runs on the real VM; result, runtime-error text and the
(possibly mutated) first argument are compared with the contract."""
import math
import re
from decimal import ROUND_HALF_EVEN, ROUND_HALF_UP, Decimal, getcontext

getcontext().prec = 1200

from . import core
from .core import Case
from .opmodel import Alt, RuntimeErr, Unspecified, binop
from .val import (Arr, Builtin, Byte, Char, Closure, ErrObj, I64_MAX, I64_MIN, Map, Opaque, canon, canon_dump, fbits,
                  from_bits, kind, lit, show)

PURE = ["len", "first", "last", "rest", "push", "pop", "get", "contains", "insert", "str", "int", "float", "char",
        "byte", "tolower", "toupper", "sort", "chars", "join", "encode_utf8", "decode_utf8", "is_error", "round"]

# how an error object / a file handle is written in source
SRC_ERR = "decode_utf8([byte(255)])"
SRC_FILE = "stdin"


def src_of(v):
    if isinstance(v, ErrObj):
        return SRC_ERR
    if isinstance(v, Opaque):
        return SRC_FILE
    if isinstance(v, Arr):
        return "[" + ", ".join(src_of(x) for x in v.items) + "]"
    if isinstance(v, Map):
        return "map {" + ", ".join("%s: %s" % (src_of(k), src_of(x)) for k, x in v.pairs) + "}"
    return lit(v)


E = ("error",)
UNSPEC = ("unspec",)
NOPANIC = ("nopanic",)


def V(x):
    return ("value", canon(x))


def valid_key(v):
    return kind(v) in ("string", "char", "byte", "int", "float", "bool", "null", "builtin", "array")


def lookup(m, k):
    """association list lookup with the stated equality; Unspecified propagates"""
    from .opmodel import values_equal
    for kk, vv in m.pairs:
        if values_equal(kk, k):
            return (kk, vv)
    return None


FLOAT_TEXT = re.compile(r"^[+-]?\d+(\.\d*)?([eE][+-]?\d+)?$|^[+-]?\.\d+([eE][+-]?\d+)?$")
INT_TEXT = re.compile(r"^[+-]?\d+$")


def ascii_lower(s):
    return "".join(chr(ord(c) + 32) if "A" <= c <= "Z" else c for c in s)


def ascii_upper(s):
    return "".join(chr(ord(c) - 32) if "a" <= c <= "z" else c for c in s)


def order_class(v):
    k = kind(v)
    if k in ("int", "float"):
        if k == "float" and v != v:
            return None
        return "num"
    if k in ("string", "char", "byte"):
        return k
    return None


def sort_key(v):
    k = kind(v)
    if k == "string":
        return v.encode("utf-8")
    if k == "char":
        return v.cp
    if k == "byte":
        return v.n
    return v


def round_accept(f, n):
    """accepted results of round(f, n): the obvious double formula, or exact-decimal half-up / half-even"""
    if f != f:
        return {"nan"}
    if math.isinf(f):
        return {fbits(f)}
    out = set()
    m = float(10 ** n)
    p = f * m
    if math.isinf(p) or p != p:
        r = p
    else:
        r = float(Decimal(p).quantize(Decimal(1), rounding=ROUND_HALF_UP))
        if r == 0.0:
            r = math.copysign(0.0, p)
    v = r / m
    out.add("nan" if v != v else fbits(v))
    d = Decimal(f)
    q = Decimal(1).scaleb(-n)
    for mode in (ROUND_HALF_UP, ROUND_HALF_EVEN):
        try:
            out.add(fbits(float(d.quantize(q, rounding=mode))))
        except Exception:
            pass
    if fbits(0.0) in out or fbits(-0.0) in out:
        out.add(fbits(0.0))
        out.add(fbits(-0.0))
    return out


def contract(name, args):
    """-> (expectation for the result, expected first argument afterwards or None)"""
    n = len(args)
    a = args[0] if n > 0 else None
    ka = kind(a) if n > 0 else None
    same = None  # first argument unchanged unless stated

    def arity(*ok):
        return n in ok

    if name == "len":
        if not arity(1):
            return E, same
        if ka == "string":
            return V(len(a.encode("utf-8"))), same
        if ka == "array":
            return V(len(a.items)), same
        if ka == "map":
            return V(len(a.pairs)), same
        return E, same
    if name in ("first", "last"):
        if not arity(1) or ka != "array":
            return E, same
        if not a.items:
            return V(None), same
        return V(a.items[0] if name == "first" else a.items[-1]), same
    if name == "rest":
        if not arity(1) or ka != "array":
            return E, same
        if not a.items:
            return V(None), same
        return V(Arr(a.items[1:])), same
    if name == "push":
        if not arity(2) or ka != "array":
            return E, same
        return V(None), canon(Arr(a.items + [args[1]]))
    if name == "pop":
        if not arity(1) or ka != "array":
            return E, same
        if not a.items:
            return V(None), same
        return V(a.items[-1]), canon(Arr(a.items[:-1]))
    if name == "get":
        if not arity(2):
            return E, same
        b = args[1]
        if ka == "array":
            if kind(b) != "int":
                return E, same
            if 0 <= b < len(a.items):
                return V(a.items[b]), same
            return V(None), same
        if ka == "map":
            if not valid_key(b):
                return UNSPEC, same
            try:
                hit = lookup(a, b)
            except Unspecified:
                return UNSPEC, same
            return V(hit[1] if hit else None), same
        return E, same
    if name == "contains":
        if not arity(2) or ka != "map":
            return E, same
        if not valid_key(args[1]):
            return UNSPEC, same
        try:
            return V(lookup(a, args[1]) is not None), same
        except Unspecified:
            return UNSPEC, same
    if name == "insert":
        if not arity(3) or ka != "map":
            return E, same
        if not valid_key(args[1]):
            return UNSPEC, None
        try:
            hit = lookup(a, args[1])
        except Unspecified:
            return UNSPEC, None
        if hit:
            newpairs = [(k, (args[2] if k is hit[0] else v)) for k, v in a.pairs]
            return V(hit[1]), canon(Map(newpairs))
        return V(None), canon(Map(a.pairs + [(args[1], args[2])]))
    if name == "str":
        if not arity(1):
            return E, same
        if ka == "string":
            return V(a), same
        if ka == "int":
            return V(str(a)), same
        if ka == "bool":
            return V("true" if a else "false"), same
        if ka == "null":
            return V("null"), same
        if ka == "char":
            return V(chr(a.cp)), same
        if ka == "float":
            return ("float_text", a), same
        if ka in ("byte", "array", "map"):
            return ("noreject", "string"), same
        return UNSPEC, same  # error objects, closures, builtins, files: the documentation is silent
    if name == "int":
        if not arity(1):
            return E, same
        if ka == "int":
            return V(a), same
        if ka == "string":
            if INT_TEXT.match(a) and I64_MIN <= int(a) <= I64_MAX:
                return V(int(a)), same
            return UNSPEC, same
        if ka == "float":
            if a == a and abs(a) < 2.0 ** 63:
                return V(int(a)), same
            return UNSPEC, same
        if ka == "char":
            return V(a.cp), same
        if ka == "byte":
            return V(a.n), same
        if ka == "bool":
            return V(1 if a else 0), same
        return E, same
    if name == "float":
        if not arity(1):
            return E, same
        if ka == "float":
            return V(a), same
        if ka == "int":
            return V(float(a)), same
        if ka == "string":
            if FLOAT_TEXT.match(a):
                try:
                    return V(float(a)), same
                except (ValueError, OverflowError):
                    return UNSPEC, same
            return UNSPEC, same
        if ka == "char":
            return V(float(a.cp)), same
        if ka == "byte":
            return V(float(a.n)), same
        if ka == "bool":
            return V(1.0 if a else 0.0), same
        return E, same
    if name == "char":
        if not arity(1):
            return E, same
        if ka == "char":
            return V(a), same
        if ka == "byte":
            return V(Char(a.n)), same
        if ka in ("int", "float"):
            if ka == "float":
                if a != a or abs(a) >= 2.0 ** 31:
                    return NOPANIC, same
                a = int(a)
            if 0 <= a < 0xD800 or 0xE000 <= a <= 0x10FFFF:
                return V(Char(a)), same
            return NOPANIC, same
        if ka in ("string", "bool"):
            return ("noreject", None), same
        return E, same
    if name == "byte":
        if not arity(1):
            return E, same
        if ka == "byte":
            return V(a), same
        if ka in ("int", "float"):
            if ka == "float":
                if a != a or abs(a) >= 2.0 ** 31:
                    return NOPANIC, same
                a = int(a)
            if 0 <= a <= 255:
                return V(Byte(a)), same
            return NOPANIC, same
        if ka == "char":
            return (V(Byte(a.cp)) if a.cp <= 0xFF else NOPANIC), same
        if ka == "bool":
            return V(Byte(1 if a else 0)), same
        if ka == "string":
            return ("noreject", None), same
        return E, same
    if name in ("tolower", "toupper"):
        if not arity(1):
            return E, same
        f = ascii_lower if name == "tolower" else ascii_upper
        if ka == "char":
            return (V(Char(ord(f(chr(a.cp))))) if a.cp < 128 else UNSPEC), same
        if ka == "byte":
            return (V(Byte(ord(f(chr(a.n))))) if a.n < 128 else UNSPEC), same
        if ka == "string":
            return (V(f(a)) if a.isascii() else UNSPEC), same
        return E, same
    if name == "sort":
        if not arity(1):
            return E, same
        if ka != "array":
            return E, same
        classes = set(order_class(x) for x in a.items)
        if len(classes) > 1 or None in classes:
            return NOPANIC, None
        return ("sorted", a), None
    if name == "chars":
        if not arity(1) or ka != "string":
            return E, same
        return V(Arr([Char(c) for c in a])), same
    if name == "join":
        if not arity(1, 2) or ka != "array":
            return E, same
        delim = ""
        if n == 2:
            kd = kind(args[1])
            if kd == "string":
                delim = args[1]
            elif kd == "char":
                delim = chr(args[1].cp)
            else:
                return E, same
        if any(kind(x) != "char" for x in a.items):
            return E, same
        return V(delim.join(chr(x.cp) for x in a.items)), same
    if name == "encode_utf8":
        if not arity(1) or ka != "string":
            return E, same
        return V(Arr([Byte(b) for b in a.encode("utf-8")])), same
    if name == "decode_utf8":
        if not arity(1) or ka != "array":
            return E, same
        if any(kind(x) != "byte" for x in a.items):
            return E, same
        try:
            return V(bytes(x.n for x in a.items).decode("utf-8")), same
        except UnicodeDecodeError:
            return ("errobj",), same
    if name == "is_error":
        if not arity(1):
            return E, same
        return V(ka == "error"), same
    if name == "round":
        if not arity(2):
            return E, same
        if ka != "float":
            return E, same
        if kind(args[1]) != "int":
            return E, same
        if 0 <= args[1] <= 15:
            return ("round", a, args[1]), same
        return NOPANIC, same
    raise ValueError(name)


POOL = [0, 1, -1, 2, 65, 97, 255, 256, 0xD7FF, 0xD800, 0xDFFF, 0xE000, 0x10FFFF, 0x110000, I64_MAX, I64_MIN, 1 << 40,
        0.0, -0.0, 1.5, -1.5, 2.5, 65.0, 255.0, 255.9, 256.0, 1e300, -1e300, 5e-324, 0.1, math.nan, math.inf, -math.inf,
        9.2e18, 9.3e18, 123456.789,
        Byte(0), Byte(65), Byte(97), Byte(200), Byte(255),
        Char("a"), Char("Z"), Char("é"), Char(0x1F496), Char("0"), Char(0xFF), Char(0x100),
        "", "a", "abc", "ABC def", "123", "-5", "+7", "1.5", "é", "\U0001F496", " 1", "1e3", "9223372036854775807",
        "9223372036854775808", "-9223372036854775808", "0x10", "inf", "nan", "1_000", ".5", "5.", "Straße", "ǅ",
        True, False, None,
        Arr([]), Arr([1, 2, 3]), Arr([3, 1, 2]), Arr(["b", "a"]), Arr([Char("h"), Char("i")]),
        Arr([Byte(104), Byte(105)]), Arr([Byte(255), Byte(254)]), Arr([Byte(0xC3), Byte(0xA9)]), Arr([1, "a"]),
        Arr([Char("a"), 1]), Arr([Byte(1), 1]), Arr([2.5, 1, 3]), Arr([Arr([1])]), Arr([None]),
        Map([]), Map([(1, "a"), ("b", 2)]), Map([(1.0, "x")]),
        Closure(), Builtin("len"), ErrObj(), Opaque("file")]


def judge(name, args, exp, after, r):
    """-> None or a description of the disagreement"""
    oc = r.get("outcome")
    if oc == "panic":
        return "panic: %s at %s" % (r["panic"]["msg"], r["panic"]["loc"])
    if oc not in ("ok", "rt_error"):
        return "ended with %s" % oc
    if exp[0] == "unspec" or exp[0] == "nopanic":
        return None
    if exp[0] == "error":
        if oc != "rt_error":
            return "expected a runtime error naming the builtin, got %s" % show(canon_dump(r["globals"]["__o"])[1][0])
        if not r["rt"]["msg"].startswith(name + ":"):
            return "runtime error does not name the builtin: %r" % r["rt"]["msg"]
        return None
    if oc == "rt_error":
        return "rejected a documented call: %s" % r["rt"]["msg"]
    o = canon_dump(r["globals"]["__o"])[1]
    res = o[0]
    arg_after = o[1] if len(o) > 1 else None
    if exp[0] == "value":
        if res != exp[1]:
            return "expected %s, got %s" % (show(exp[1]), show(res))
    elif exp[0] == "noreject":
        if exp[1] == "string" and res[0] != "s":
            return "expected a string, got %s" % show(res)
    elif exp[0] == "errobj":
        if res != ("err",):
            return "expected an error object, got %s" % show(res)
    elif exp[0] == "float_text":
        if res[0] != "s":
            return "expected a string, got %s" % show(res)
        x = exp[1]
        if x == x and not math.isinf(x):
            back = o[2] if len(o) > 2 else None
            if back != canon(x) and not (x == 0 and back in (canon(0.0), canon(-0.0))):
                return "float(str(x)) gives %s for x = %r (str(x) = %s)" % (show(back) if back else None, x, show(res))
    elif exp[0] == "round":
        acc = round_accept(exp[1], exp[2])
        if res[0] != "f" or res[1] not in acc:
            return "round(%r, %d) = %s, accepted: %s" % (exp[1], exp[2], show(res), sorted(
                (repr(from_bits(b)) if b != "nan" else "nan") for b in acc))
    elif exp[0] == "sorted":
        arr = exp[1]
        want = sorted(arr.items, key=sort_key)
        if res[0] != "a":
            return "expected the array back, got %s" % show(res)
        got_keys = [x for x in res[1]]
        # permutation + non-decreasing (ties between 1 and 1.0 may come in any order)
        if sorted(map(repr, got_keys)) != sorted(repr(canon(x)) for x in arr.items):
            return "result is not a permutation of the input: %s" % show(res)
        vals = [sort_key(from_c(x)) for x in got_keys]
        if any(vals[i] > vals[i + 1] for i in range(len(vals) - 1)):
            return "result is not non-decreasing: %s" % show(res)
        same_obj = o[2] if len(o) > 2 else None
        if same_obj != ("bool", True):
            return "sort did not return the same array object"
        if arg_after != res:
            return "the argument array was not sorted in place"
        return None
    if after is not None and arg_after is not None and arg_after != after:
        return "first argument afterwards is %s, expected %s" % (show(arg_after), show(after))
    if after is None and exp[0] in ("value",) and name not in ("push", "pop", "insert", "sort") and arg_after is not None:
        if arg_after != canon(args[0]) and kind(args[0]) not in ("error", "opaque"):
            return "first argument was modified: %s" % show(arg_after)
    return None


def from_c(c):
    t = c[0]
    if t == "i":
        return c[1]
    if t == "f":
        return math.nan if c[1] == "nan" else from_bits(c[1])
    if t == "s":
        return c[1]
    if t == "c":
        return Char(c[1])
    if t == "b":
        return Byte(c[1])
    return None


def program(name, args):
    lines = ["let __o = [];"]
    for i, a in enumerate(args):
        lines.append("let a%d = %s;" % (i, src_of(a)))
    call = "%s(%s)" % (name, ", ".join("a%d" % i for i in range(len(args))))
    lines.append("let r = %s;" % call)
    if name == "sort" and args and kind(args[0]) == "array":
        # snapshots (array + [] is a fresh array), then the same-object probe
        lines.append("push(__o, if r != null { r + [] } else { r });")
        lines.append("push(__o, a0 + []);")
        lines.append("push(a0, 424242); push(__o, last(r) == 424242);")
        return "\n".join(lines)
    lines.append("push(__o, r);")
    if args:
        lines.append("push(__o, a0);")
    if name == "str" and args and kind(args[0]) == "float":
        lines.append("push(__o, float(r));")
    return "\n".join(lines)


def rand_string(rng, maxlen=12):
    n = rng.randint(0, maxlen)
    out = []
    for _ in range(n):
        k = rng.randrange(6)
        if k == 0:
            cp = rng.randint(1, 127)
        elif k == 1:
            cp = rng.randint(128, 0x7FF)
        elif k == 2:
            cp = rng.randint(0x800, 0xFFFF)
        elif k == 3:
            cp = rng.randint(0x10000, 0x10FFFF)
        else:
            cp = rng.choice([32, 65, 97, 48, 0xE9, 0x65E5, 0xFEFF, 0xFFFE, 0xFFFD, 0x200B, 0x2028, 0x85, 0x7F, 0x80, 0x7FF, 0x800, 0xFFFF, 0x10000])
        if 0xD800 <= cp <= 0xDFFF or cp == 34 or cp == 0:
            cp = 0x20
        out.append(chr(cp))
    s = "".join(out)
    if rng.random() < 0.06:
        # a byte-order mark / odd code point right at the start or the end
        s = rng.choice(["\ufeff", "\ufffe", "\u200b", "\ufeff\ufeff"]) + s if rng.random() < 0.7 else s + "\ufeff"
    return s


def run(chk):
    rng = chk.rng
    quick = chk.tier == "quick"
    chk.rule = ("every pure builtin x arity 0..4 x argument kinds from a %d-value pool (all values for arity 1, sampled tuples "
                "beyond), plus the round-trip laws and sort/round on random values; distinct = distinct (builtin, argument "
                "kinds, expectation class)" % len(POOL))
    chk.assumptions = ["contract table transcribed from docs/language/builtins.md (DESIGN.md appendix A); what the documentation "
                       "does not determine is not judged (counted as unspecified)"]
    chk.floor = 5000
    chk.rule += '; plus join with elements equal to the delimiter, arrays of large integers closer than the double spacing, strings with byte-order marks at the edges'
    jobs = []
    for name in PURE:
        jobs.append((name, []))
        for a in POOL:
            jobs.append((name, [a]))
        n2 = 150 if quick else 1500
        for _ in range(n2):
            jobs.append((name, [rng.choice(POOL), rng.choice(POOL)]))
        for _ in range(40 if quick else 300):
            jobs.append((name, [rng.choice(POOL) for _ in range(3)]))
        for _ in range(10 if quick else 60):
            jobs.append((name, [rng.choice(POOL) for _ in range(4)]))
    # targeted second arguments
    arrays = [v for v in POOL if kind(v) == "array"]
    maps = [v for v in POOL if kind(v) == "map"]
    for arr in arrays:
        for i in (-1, 0, 1, 2, 3, I64_MAX, I64_MIN):
            jobs.append(("get", [arr, i]))
        for v in (1, "x", None, arr):
            jobs.append(("push", [arr, v]))
        for d in ("", ", ", Char("-"), "é", 1, None):
            jobs.append(("join", [arr, d]))
    # join: elements equal to the delimiter at the edges and everywhere, delimiters of repeated / several characters
    for chars_ in (["a", "-"], ["-", "a"], ["-"], ["-", "-", "-"], ["a", "-", "-"], ["1", "0", "0"], ["/"], ["a", "b", "a"], ["é", "é"], [], ["x"], [",", " "], [" ", ","]):
        for d in ("-", Char("-"), "0", "/", "--", "a", "ab", "é", ", ", " ", "", Char("a"), ",", "x", "-a-"):
            jobs.append(("join", [Arr([Char(c) for c in chars_]), d]))
    for _ in range(60 if quick else 1500):
        alpha = rng.choice(["ab", "-x", "0", "aé", ",; "])
        arr = [Char(rng.choice(alpha)) for _ in range(rng.randint(0, 6))]
        d = "".join(rng.choice(alpha) for _ in range(rng.randint(0, 3)))
        jobs.append(("join", [Arr(arr), d if rng.random() < 0.7 or len(d) != 1 else Char(d)]))
    for m in maps:
        for k in (1, 1.0, "b", "zz", None, Arr([1]), True):
            jobs.append(("get", [m, k]))
            jobs.append(("contains", [m, k]))
            jobs.append(("insert", [m, k, 77]))
    for f in [v for v in POOL if kind(v) == "float"] + [0.5, 1.5, 2.5, 0.125, 2.675, 1.005, -0.5, 1e15 + 0.5, 123.456]:
        for p in (-1, 0, 1, 2, 3, 5, 15, 16, 19, 20, 100, I64_MAX, I64_MIN):
            jobs.append(("round", [f, p]))
    # laws on random values
    n_law = 2000 if quick else 40000
    for _ in range(n_law):
        k = rng.randrange(6)
        if k == 0:
            n = rng.choice([rng.randint(I64_MIN, I64_MAX), rng.randint(-1000, 1000), I64_MIN, I64_MAX])
            jobs.append(("law_int_str", [n]))
        elif k == 1:
            x = from_bits(rng.getrandbits(64)) if rng.random() < 0.7 else rng.uniform(-1e6, 1e6)
            if x != x or math.isinf(x):
                x = 1.25
            jobs.append(("str", [x]))
        elif k == 2:
            jobs.append(("law_utf8", [rand_string(rng)]))
        elif k == 3:
            L = rng.choice([0, 1, 2, 5, 20, 21, 50, 300 if not quick else 60])
            c = rng.randrange(8)
            if c == 7:
                # integers too close to be told apart as doubles, next to floats whose comparison with them is exact
                base = rng.choice([(1 << 53) + 1, (1 << 60) + 3, I64_MAX - 300, -(1 << 53) - 5])
                arr = [base + rng.randint(-3, 3) for _ in range(max(2, L // 2))] + [rng.choice([0.5, -2.25, 1024.0, 3.0e9]) for _ in range(rng.randint(1, 3))]
                rng.shuffle(arr)
            elif c == 6:
                # integers too large / too close to be told apart as doubles
                base = rng.choice([1 << 53, (1 << 53) + 1, 1 << 60, (1 << 62) + 3, I64_MAX - 300, I64_MIN + 300, -(1 << 53) - 5, 1700000000123456789])
                arr = [base + rng.randint(-300, 300) if rng.random() < 0.9 else rng.choice([I64_MAX, I64_MIN, 0]) for _ in range(L)]
            elif c == 0:
                arr = [rng.randint(-50, 50) for _ in range(L)]
            elif c == 1:
                arr = [rng.choice([rng.uniform(-10, 10), float(rng.randint(-5, 5)), math.inf, -math.inf]) for _ in range(L)]
            elif c == 2:
                arr = [rng.choice([rng.randint(-5, 5), float(rng.randint(-5, 5)), rng.uniform(-5, 5)]) for _ in range(L)]
            elif c == 3:
                arr = [rand_string(rng, 3) for _ in range(L)]
            elif c == 4:
                arr = [Char(rng.choice("abcXYZé0日")) for _ in range(L)]
            else:
                arr = [Byte(rng.randrange(256)) for _ in range(L)]
            jobs.append(("sort", [Arr(arr)]))
        elif k == 4:
            x = rng.choice([rng.uniform(-1000, 1000), rng.randint(-10 ** 6, 10 ** 6) / 8.0, rng.randint(-10 ** 6, 10 ** 6) / 1000.0])
            jobs.append(("round", [x, rng.randint(0, 15)]))
        else:
            jobs.append(("law_chars", [rand_string(rng)]))
    # results are fresh values: changing what a builtin returned does not change what it returns next time
    for L in (1, 2, 5, 31, 32, 33, 40, 64, 65, 100, 300):
        for mut in ("sort(r1);", "push(r1, '!');", "pop(r1);", "r1[0] = '#';", "push(r1, r1[0]); sort(r1);"):
            txt = "".join(chr(97 + (i * 7 + L) % 26) for i in range(L))
            jobs.append(("law_fresh_chars", [txt, mut]))
            jobs.append(("law_fresh_bytes", [txt, mut.replace("'!'", "byte(33)").replace("'#'", "byte(35)")]))
        jobs.append(("law_fresh_rest", [L]))

    cases = []
    specs = []
    for i, (name, args) in enumerate(jobs):
        if name == "law_int_str":
            src = "let __o = []; let n = %s; push(__o, str(n)); push(__o, int(str(n)));" % lit(args[0])
            specs.append(("law", ("a", (("s", str(args[0])), ("i", args[0]))), None))
        elif name == "law_utf8":
            s = args[0]
            src = ("let __o = []; let s = %s; push(__o, decode_utf8(encode_utf8(s))); push(__o, len(encode_utf8(s)) == len(s)); "
                   "push(__o, len(s));" % lit(s))
            specs.append(("law", ("a", (("s", s), ("bool", True), ("i", len(s.encode("utf-8"))))), None))
        elif name == "law_chars":
            s = args[0]
            src = "let __o = []; let s = %s; push(__o, join(chars(s))); push(__o, len(chars(s)));" % lit(s)
            specs.append(("law", ("a", (("s", s), ("i", len(s)))), None))
        elif name == "law_fresh_chars":
            s, mut = args
            src = "let __o = []; let s = %s; let r1 = chars(s); %s let s2 = %s; push(__o, join(chars(s2))); push(__o, len(chars(s))); push(__o, join(chars(s)));" % (lit(s), mut, lit(s))
            specs.append(("law", ("a", (("s", s), ("i", len(s)), ("s", s))), None))
        elif name == "law_fresh_bytes":
            s, mut = args
            src = "let __o = []; let s = %s; let r1 = encode_utf8(s); %s let s2 = %s; push(__o, decode_utf8(encode_utf8(s2))); push(__o, len(encode_utf8(s))); push(__o, decode_utf8(encode_utf8(s)));" % (lit(s), mut, lit(s))
            specs.append(("law", ("a", (("s", s), ("i", len(s)), ("s", s))), None))
        elif name == "law_fresh_rest":
            L = args[0]
            elems = ", ".join(str(i) for i in range(L))
            src = "let __o = []; let a = [%s]; let r1 = rest(a); if r1 != null { push(r1, 77); if len(r1) > 1 { r1[0] = 55; } } let r2 = rest(a); push(__o, if r2 == null { 0 - 1 } else { len(r2) }); push(__o, len(a)); push(__o, first(a));" % elems
            specs.append(("law", ("a", (("i", L - 1), ("i", L), ("i", 0))), None))
        else:
            src = program(name, args)
            exp, after = contract(name, args)
            specs.append(("contract", exp, after))
        cases.append(Case("b%d" % i, src, {"globals": "__o", "steps": 200000}))
    res = core.run_cases(cases)
    for i, (name, args) in enumerate(jobs):
        r = res.get("b%d" % i)
        if r is None:
            chk.inconc("missing result")
            continue
        if r.get("outcome") in ("parse_errors", "compile_error"):
            chk.inconc("generated program rejected")
            if chk.inconclusive["generated program rejected"] <= 3:
                chk.sample({"rejected": core.short(cases[i].src, 200), "diag": r.get("diag")})
            continue
        kindsig = ",".join(kind(a) for a in args)
        spec = specs[i]
        if spec[0] == "law":
            chk.observed((name, kindsig))
            oc = r.get("outcome")
            got = canon_dump(r["globals"].get("__o")) if oc == "ok" else None
            if oc == "panic":
                chk.violation("panic|" + core.panic_site_sig(r["panic"]["loc"], r["panic"]["msg"]),
                              "%s panics" % name, {"src": cases[i].src, "r": r})
            elif got != spec[1]:
                chk.violation("law|%s" % name, "%s fails for %s: observed %s" % (
                    name, core.short(lit(args[0]), 80), show(got) if got else (r.get("rt") or oc)),
                    {"src": cases[i].src, "observed": r})
            continue
        exp, after = spec[1], spec[2]
        if exp[0] == "unspec":
            chk.count("unspecified_by_documentation")
        chk.observed((name, kindsig, exp[0]))
        if i % 1201 == 0:
            chk.sample({"call": core.short(cases[i].src, 200), "contract": exp[0], "outcome": r.get("outcome")})
        bad = judge(name, args, exp, after, r)
        if bad:
            if r.get("outcome") == "panic":
                sig = "panic|" + core.panic_site_sig(r["panic"]["loc"], r["panic"]["msg"])
            else:
                sig = "contract|%s|%s|%s" % (name, kindsig, exp[0])
            chk.violation(sig, "%s(%s): %s" % (name, ", ".join(core.short(src_of(a), 60) for a in args), bad),
                          {"src": cases[i].src, "expected": repr(exp), "observed": r})
