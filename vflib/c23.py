"""C23 - REPL lines accumulate state like one program; rejected lines have no effect.

Vehicle: the real run_prompt loop of the real binary, its line source
replaced by the guarded scripted hook (P2SH_VERIF_REPL_STDIN), which also
writes a marker before every read so that output can be attributed to lines.
Oracle (as the property states it): the implementation's own command / script
mode. With A1..Ak the accepted lines so far (a line that failed at run time
contributes the statements before the failing one), the REPL's stdout for
line k must equal stdout(-c A1..Ak) minus stdout(script A1..A(k-1)); a line is
accepted iff that program has no parse / compile diagnostics; a rejected line
prints nothing on stdout and later expectations are computed without it."""
import os
import shutil

from . import core

MARK = "\x1e"


def gen_history(rng):
    """-> list of (physical lines [..], logical text, kind, contribution when it fails at run time)"""
    n = rng.randint(1, 12)
    names = []
    fns = []
    fns0 = []
    arrs = []
    ghosts = []
    shadowed = []
    hist = []
    k = 0
    for _ in range(n):
        k += 1
        c = rng.random()

        def pick(lst):
            return rng.choice(lst) if lst else None
        if ghosts and rng.random() < 0.12:
            # a name that only a rejected line tried to define: still undefined (or still its old self)
            hist.append((rng.choice(["puts(%s);", "%s", "let gg%d = %s;" % (k, "%s")]) % pick(ghosts), "ok"))
            continue
        if shadowed and rng.random() < 0.5:
            # a name that a rejected line re-bound inside a block / body: read from a nested scope, it is still the outer binding
            nm = shadowed.pop()
            hist.append((rng.choice(["fn rd%d() { %s } puts(rd%d());" % (k, nm, k), "if true { puts(%s); }" % nm, "{ { puts(%s); } }" % nm,
                                      "let cl%d = fn() { fn() { %s } }; puts(cl%d()());" % (k, nm, k), "let i%d = 0; while i%d < 1 { i%d = i%d + 1; puts(%s); }" % (k, k, k, k, nm),
                                      "puts(match 1 { 1 => { %s } _ => { 0 } });" % nm]), "ok"))
            continue
        if names and rng.random() < 0.06:
            # rejected after a block / body of the line re-bound an existing name
            nm = pick(names)
            hist.append((rng.choice(["if true { let %s = 99; zz; }" % nm, "{ let %s = \"inner\"; { zz } }" % nm, "while false { let %s = 2; zz }" % nm,
                                      "fn e%d(%s) { zz }" % (k, nm), "if false { 1 } else { let %s = 3; zz }" % nm, "{ { let %s = 4; } zz }" % nm,
                                      "fn sh%d() { let %s = 5; zz }" % (k, nm), "puts(1); { let %s = 6; zz; }" % nm,
                                      "match 1 { 1 => { let %s = 7; zz } _ => { 0 } }" % nm]), "compile"))
            shadowed.append(nm)
            for w in ("e%d" % k, "sh%d" % k):
                if w in hist[-1][0]:
                    ghosts.append(w)
            continue
        if rng.random() < 0.07:
            # a backslash inside a line (strings have no escapes; only a backslash that ENDS a line continues it)
            hist.append((rng.choice(["puts(\"C:\\dir\\file %d\");" % k, "let bs%d = \"a\\b\"; puts(len(bs%d));" % (k, k), "puts(\"\\\", %d);" % k, "\"mid\\dle\"",
                                      "puts('\\', %d);" % k]), "ok"))
            continue
        if c < 0.22 or not names:
            nm = "v%d" % k
            if rng.random() < 0.15:
                # a binding that shares its name with a builtin the generated lines never call
                free = [b for b in ("first", "last", "rest", "str", "int", "time", "sort", "chars", "round", "contains", "get", "float", "join") if b not in names]
                if free:
                    nm = rng.choice(free)
            rhs = str(rng.randint(0, 50)) if not names or rng.random() < 0.5 else "%s + %d" % (pick(names), rng.randint(1, 9))
            hist.append(("let %s = %s;" % (nm, rhs), "ok"))
            names.append(nm)
        elif c < 0.30:
            nm = pick(names)
            hist.append(("let %s = %d;" % (nm, rng.randint(100, 200)), "ok"))       # redefinition
        elif c < 0.38:
            fn = "f%d" % k
            if rng.random() < 0.35:
                # reads a global from inside a body, defined and used in one line
                hist.append(("fn %s() { return %s; } puts(%s());" % (fn, pick(names), fn), "ok"))
                fns0.append(fn)
            else:
                hist.append(("fn %s(x) { x + %s }" % (fn, pick(names)), "ok"))
                fns.append(fn)
        elif c < 0.44:
            a = "a%d" % k
            hist.append(("let %s = [%s];" % (a, pick(names)), "ok"))
            arrs.append(a)
        elif c < 0.56:
            what = pick(names + arrs)
            hist.append((rng.choice(["puts(%s);", "puts(\"val \", %s);", "println(\"{}\", %s);"]) % what, "ok"))
        elif c < 0.62 and (fns or fns0):
            if fns0 and (not fns or rng.random() < 0.5):
                hist.append(("puts(%s());" % pick(fns0), "ok"))
            else:
                hist.append(("puts(%s(%d));" % (pick(fns), rng.randint(0, 9)), "ok"))
        elif c < 0.70:
            hist.append((rng.choice(["%s * 2", "%s", "[%s, 1]", "%s == %s" % ("%s", "%s")]).replace("%s", pick(names)), "ok"))   # echoed value
        elif c < 0.75:
            nm = pick(names)
            hist.append((rng.choice(["%s = %s + 1;", "%s = %s * 2"]) % (nm, nm), "ok"))
        elif c < 0.79 and arrs:
            hist.append(("push(%s, %d); puts(len(%s));" % (pick(arrs), k, arrs[-1] if False else pick(arrs)), "ok"))
        elif c < 0.84:
            hist.append((rng.choice(["let = 5", "puts(", "1 +", "let x%d 5;" % k, "fn (a { }", "if { }", "\"unterminated", "x%d: 1" % k]), "parse"))
        elif c < 0.93 and rng.random() < 0.25:
            # rejected for its size (operand limit) after definitions that compiled fine
            nm = pick(names)
            hist.append((rng.choice(["let big%d = 2; let %s = 3; puts(%s);" % (k, nm, ", ".join("1" for _ in range(256))),
                                      "let big%d = 5; %s = 6; fn many%d(%s) { 0 }" % (k, nm, k, ", ".join("q%d" % i for i in range(300))),
                                      "let %s = 7; fn big%d() { 1 } puts(%s);" % (nm, k, ", ".join("2" for _ in range(300)))]), "compile"))
            ghosts.append("big%d" % k)
        elif c < 0.93:
            nm = pick(names)
            hist.append((rng.choice(["zz%d" % k, "let n%d = zz;" % k, "let %s = zz;" % nm, "break;", "fn g%d() { zz }" % k, "puts(%s); zz" % nm,
                                      "let m%d = 1; zz" % k, "return 1;", "fn h%d(a) { let q = a; { let r = q; } r }" % k, "%s = zz" % nm,
                                      "let p%d = fn() { zz };" % k, "match 1 { 1 => 1, \"a\" => 2 }",
                                      "if true { let %s = 5; zz; }" % nm, "{ let %s = \"inner\"; zz }" % nm, "while false { let %s = 2; zz }" % nm,
                                      "fn e%d(%s) { zz }" % (k, nm), "let t%d = \"lit\"; let u%d = [1, 2.5, \"more\"]; zz" % (k, k),
                                      # rejected for its size (operand limit), after definitions that compiled fine
                                      "let big%d = 2; let %s = 3; puts(%s);" % (k, nm, ", ".join("1" for _ in range(256))),
                                      "fn bigf%d() { 1 } let %s = 4; fn many%d(%s) { 0 }" % (k, nm, k, ", ".join("q%d" % i for i in range(300)))]), "compile"))
            for w in ("n%d" % k, "m%d" % k, "g%d" % k, "p%d" % k, "t%d" % k, "u%d" % k, "big%d" % k, "bigf%d" % k, "e%d" % k, "h%d" % k):
                if w in hist[-1][0]:
                    ghosts.append(w)
        else:
            nm = "w%d" % k
            pre = "let %s = %d; puts(\"before %d\");" % (nm, k, k)
            if rng.random() < 0.4:
                # definitions with their own constants in a line that then fails
                fn = "rf%d" % k
                pre = "fn %s() { return \"lit %d\"; } %s let s%d = \"text %d\";" % (fn, k, pre, k, k)
                fns0.append(fn)
            fail = rng.choice(["1 / 0", "%s[0]" % pick(names), "len(%s)" % pick(names), "%s(1)" % pick(names), "[1][5]"])
            hist.append((pre + " " + fail, "runtime", pre))
            names.append(nm)
    # a continuation line now and then
    out = []
    for h in hist:
        text = h[0]
        if h[1] == "ok" and " + " in text and rng.random() < 0.3:
            a, b = text.split(" + ", 1)
            phys = [a + " + \\", b]
            logical = a + " + " + "\n" + b
        else:
            phys = [text]
            logical = text
        out.append((phys, logical, h[1], h[2] if len(h) > 2 else None))
    return out


def split_segments(text):
    """-> {physical read index: text printed after that read and before the next one}"""
    segs = {}
    parts = text.split(MARK)
    for p in parts[1:]:
        nl = p.find("\n")
        try:
            idx = int(p[:nl])
        except ValueError:
            continue
        segs[idx] = p[nl + 1:]
    return segs


def run(chk):
    rng = chk.rng
    quick = chk.tier == "quick"
    chk.rule = ("histories of 1-12 REPL lines: definitions, redefinitions, functions and closures over globals, uses that print or echo, "
                "mutations, lines with parse errors, compile errors (undefined names incl. `let a = undefined` for an existing a, break "
                "outside a loop, errors inside function bodies, invalid match arms), runtime failures in the last statement, "
                "continuation lines; distinct = distinct (sequence of line kinds)")
    chk.assumptions = ["the line source of Prompt::show is the guarded scripted hook (dialoguer's terminal editing is not exercised); the "
                       "run_prompt loop itself is the real one", "lines that fail at run time fail in their last statement, before any "
                       "side effect of it"]
    chk.floor = 100
    chk.rule += "; plus bindings that share a builtin's name, lines rejected for their size after definitions that compiled, later uses of names that only rejected lines tried to define, definitions with their own constants in a line that then fails at run time, lines rejected after a block or body re-bound an existing name, followed by reads of that name from nested scopes, lines with a backslash that does not end them"
    work = core.scratch_dir()
    try:
        n = 120 if quick else 3000
        path = os.path.join(work, "acc.p2")
        env = dict(os.environ, P2SH_VERIF_REPL_STDIN="1")
        for t in range(n):
            hist = gen_history(rng)
            rel = t % 2 == 1
            phys_all = []
            ends = []          # physical index of the last line of each logical line
            for phys, logical, kind, contrib in hist:
                phys_all += phys
                ends.append(len(phys_all) - 1)
            rr = core.run_binary([], stdin_data=("\n".join(phys_all) + "\n").encode("utf-8"), release=rel, timeout=60, env=env)
            if rr["timeout"]:
                chk.inconc("REPL run timed out")
                continue
            if core.crashed(rr):
                chk.violation("repl-crash|" + core.msg_class(rr["err"].decode("utf-8", "replace")[-60:]), "the REPL crashes", {"lines": phys_all,
                              "stderr": rr["err"].decode("utf-8", "replace")[-400:]})
                continue
            osegs = split_segments(rr["out"].decode("utf-8", "replace"))
            esegs = split_segments(rr["err"].decode("utf-8", "replace"))
            accepted = []       # contributions of accepted lines so far
            kinds = tuple(h[2] for h in hist)
            chk.observed(kinds)
            if t % 23 == 0:
                chk.sample({"lines": phys_all, "stdout_per_line": [osegs.get(e, "") for e in ends], "stderr_per_line": [esegs.get(e, "")[:60] for e in ends]})
            bad = None
            for li, (phys, logical, kind, contrib) in enumerate(hist):
                e = ends[li]
                got_out = osegs.get(e, "")
                got_err = esegs.get(e, "")
                if e == len(phys_all) - 1:
                    # the last segment also holds the REPL's farewell
                    got_out = got_out[:-len("\nExiting...\n")] if got_out.endswith("\nExiting...\n") else got_out
                def term(x):
                    # in a script an expression continues on the next line unless it is terminated
                    x = x.rstrip()
                    if x.endswith("}") and (x.startswith("if ") or x.startswith("match ")):
                        return x + ";"     # an if / match statement is an expression: `[` or `(` on the next line would continue it
                    return x if x.endswith(";") or x.endswith("}") else x + ";"
                prog = "\n".join([term(a) for a in accepted] + [logical]) + "\n"
                ro = core.run_binary(["-c", prog], release=rel, timeout=30)
                if ro["timeout"] or core.crashed(ro):
                    chk.inconc("oracle run failed")
                    break
                oerr = ro["err"].decode("utf-8", "replace")
                rejected_by_oracle = ("parse errors" in oerr) or ("compile error" in oerr)
                rejected_by_repl = ("parse errors" in got_err) or ("compile error" in got_err)
                if rejected_by_oracle != rejected_by_repl:
                    bad = ("line %d %r is %s by the REPL but %s as the end of a script of the accepted lines (REPL stderr %r, script stderr %r)" % (
                        li, logical, "rejected" if rejected_by_repl else "accepted", "rejected" if rejected_by_oracle else "accepted", got_err[:100], oerr[:100]),
                        "acceptance|%s|after=%s" % (kind, "+".join(sorted(set(kinds[:li]))) or "nothing"))
                    break
                if rejected_by_oracle:
                    if got_out != "":
                        bad = ("rejected line %d %r printed %r on stdout" % (li, logical, got_out), "rejected-line-prints|" + kind)
                        break
                    continue
                with open(path, "w") as f:
                    f.write("\n".join(term(a) for a in accepted) + "\n")
                rp = core.run_binary([path], release=rel, timeout=30) if accepted else {"out": b"", "timeout": False, "rc": 0, "err": b""}
                if rp.get("timeout"):
                    chk.inconc("oracle run failed")
                    break
                full = ro["out"].decode("utf-8", "replace")
                prefix = rp["out"].decode("utf-8", "replace")
                if not full.startswith(prefix):
                    chk.inconc("oracle outputs are not prefix-related")
                    break
                want = full[len(prefix):]
                if got_out != want:
                    bad = ("line %d %r printed %r, as the end of a script of the accepted lines it prints %r (accepted so far: %r)" % (
                        li, logical, got_out, want, accepted[-4:]), "output|%s|after=%s" % (kind, "+".join(sorted(set(kinds[:li]))) or "nothing"))
                    break
                runtime_failed = "Runtime error" in oerr
                if runtime_failed != ("Runtime error" in got_err):
                    bad = ("line %d %r: runtime error status differs (REPL %r, script %r)" % (li, logical, got_err[:80], oerr[:80]), "runtime-status|" + kind)
                    break
                if runtime_failed:
                    if contrib is not None:
                        accepted.append(contrib)
                    else:
                        chk.inconc("a line failed at run time unexpectedly")
                        break
                else:
                    accepted.append(logical)
            if bad:
                chk.violation("repl|" + bad[1], bad[0], {"lines": phys_all, "kinds": kinds})
        # long sessions: tens of thousands of block-level bindings come and go between the definition of a closure
        # and its later uses; names defined afterwards are new names
        if True:
            for nblocks, per in (((34, 1000),) if quick else ((34, 1000), (10, 3000), (60, 600), (64, 1000))):
                lines = ["let f = null;", "if true { let secret = 42; f = fn() { secret }; }", "puts(f());"]
                lines += ["{ " + "let t = null; " * per + "}"] * nblocks
                lines += ["puts(f());", "let y = 7;", "puts(f());", "puts(y);", "let z = [y, f()];", "puts(z);"]
                outs, errs, rr = core.repl_session(lines, release=True, timeout=1200)
                if outs is None:
                    chk.inconc("long session did not complete")
                    continue
                chk.observed(("long-session", nblocks, per))
                got = [o for l_, o in zip(lines, outs) if l_.startswith("puts(")]
                want = ["42\n", "42\n", "42\n", "7\n", "[7, 42]\n"]
                if got != want:
                    chk.violation("repl|long-session", "after %d blocks of %d block-level bindings the session prints %s instead of %s" % (nblocks, per, got, want),
                                  {"lines": lines[:3] + ["... %d x block of %d lets ..." % (nblocks, per)] + lines[-6:]})
    finally:
        shutil.rmtree(work, ignore_errors=True)
