"""Packet model: legacy pcap reader/writer, frame builders, an RFC-table decoder
(pcap, Ethernet, IEEE 802.1Q, RFC 791 / 8200 / 9293 / 768), layer dispatch and a
structure-aware random frame generator. Independent of the repository code."""
import ipaddress
import struct

MAGIC_US = 0xA1B2C3D4
MAGIC_NS = 0xA1B23C4D

ET_VLAN, ET_IPV4, ET_IPV6 = 0x8100, 0x0800, 0x86DD
P_TCP, P_UDP, P_IPV6 = 6, 17, 41


# ---------------------------------------------------------------------------
# pcap files

def pcap_header(magic=MAGIC_US, major=2, minor=4, thiszone=0, sigfigs=0, snaplen=65535, linktype=1):
    return struct.pack("<IHHiIII", magic, major, minor, thiszone, sigfigs, snaplen, linktype)


def pcap_record(sec, usec, data, caplen=None, wirelen=None):
    caplen = len(data) if caplen is None else caplen
    wirelen = len(data) if wirelen is None else wirelen
    return struct.pack("<IIII", sec & 0xFFFFFFFF, usec & 0xFFFFFFFF, caplen & 0xFFFFFFFF, wirelen & 0xFFFFFFFF) + data


def pcap_file(records, **hdr):
    """records: list of (sec, usec, data) or (sec, usec, data, caplen, wirelen)"""
    out = [pcap_header(**hdr)]
    for r in records:
        out.append(pcap_record(*r))
    return b"".join(out)


def parse_pcap(b):
    """-> (header dict | None, [records as (sec, usec, caplen, wirelen, data)], leftover bytes)"""
    if len(b) < 24:
        return None, [], b
    magic, major, minor, tz, sf, snap, lt = struct.unpack("<IHHiIII", b[:24])
    hdr = dict(magic=magic, major=major, minor=minor, thiszone=tz, sigfigs=sf, snaplen=snap, linktype=lt)
    pos = 24
    recs = []
    while pos + 16 <= len(b):
        sec, usec, cap, wire = struct.unpack("<IIII", b[pos:pos + 16])
        if pos + 16 + cap > len(b):
            break
        recs.append((sec, usec, cap, wire, b[pos + 16:pos + 16 + cap]))
        pos += 16 + cap
    return hdr, recs, b[pos:]


# ---------------------------------------------------------------------------
# frame builders

def mac_bytes(text):
    return bytes(int(x, 16) for x in text.split(":"))


def eth(dst, src, etype, payload=b""):
    return dst + src + struct.pack(">H", etype) + payload


def vlan(prio, dei, vid, etype, payload=b""):
    return struct.pack(">HH", ((prio & 7) << 13) | ((dei & 1) << 12) | (vid & 0xFFF), etype) + payload


def ipv4(src, dst, proto, payload=b"", ihl=5, dscp=0, ecn=0, totlen=None, ident=0, flags=0, frag=0, ttl=64, csum=0,
         options=None, version=4):
    if options is None:
        options = bytes((i * 7 + 1) & 0xFF for i in range(max(0, ihl - 5) * 4))
    if totlen is None:
        totlen = (20 + len(options) + len(payload)) & 0xFFFF
    h = struct.pack(">BBHHHBBH", ((version & 0xF) << 4) | (ihl & 0xF), ((dscp & 0x3F) << 2) | (ecn & 3), totlen, ident,
                    ((flags & 7) << 13) | (frag & 0x1FFF), ttl, proto, csum)
    return h + src + dst + options + payload


def ipv6(src, dst, nh, payload=b"", tc=0, flow=0, plen=None, hl=64, version=6):
    if plen is None:
        plen = len(payload) & 0xFFFF
    w = ((version & 0xF) << 28) | ((tc & 0xFF) << 20) | (flow & 0xFFFFF)
    return struct.pack(">IHBB", w, plen, nh, hl) + src + dst + payload


def tcp(sp, dp, payload=b"", seq=0, ack=0, doff=5, flags=0x018, win=1000, csum=0, urg=0, options=None):
    if options is None:
        options = bytes((i * 5 + 2) & 0xFF for i in range(max(0, doff - 5) * 4))
    return struct.pack(">HHIIHHHH", sp, dp, seq, ack, ((doff & 0xF) << 12) | (flags & 0xFFF), win, csum, urg) + options + payload


def udp(sp, dp, payload=b"", ln=None, csum=0):
    if ln is None:
        ln = (8 + len(payload)) & 0xFFFF
    return struct.pack(">HHHH", sp, dp, ln, csum) + payload


# ---------------------------------------------------------------------------
# reference decoding

def bits(b, start, off, width):
    """big-endian bit field `width` bits wide starting `off` bits after byte `start`"""
    nbytes = (off % 8 + width + 7) // 8
    first = start + off // 8
    v = int.from_bytes(b[first:first + nbytes], "big")
    shift = nbytes * 8 - (off % 8) - width
    return (v >> shift) & ((1 << width) - 1)


def mac_text(b):
    return ":".join("%02X" % x for x in b)


# property name -> (bit offset, width, kind) ; kind: int | bool | mac | ip4 | ip6
FIELDS = {
    "eth": {"dst": (0, 48, "mac"), "src": (48, 48, "mac"), "type": (96, 16, "int")},
    "vlan": {"priority": (0, 3, "int"), "dei": (3, 1, "bool"), "id": (4, 12, "int"), "type": (16, 16, "int")},
    "ipv4": {"version": (0, 4, "int"), "ihl": (4, 4, "int"), "dscp": (8, 6, "int"), "ecn": (14, 2, "int"), "totlen": (16, 16, "int"),
             "id": (32, 16, "int"), "flags": (48, 3, "int"), "fragoff": (51, 13, "int"), "ttl": (64, 8, "int"), "proto": (72, 8, "int"),
             "checksum": (80, 16, "int"), "src": (96, 32, "ip4"), "dst": (128, 32, "ip4")},
    "ipv6": {"version": (0, 4, "int"), "trafficclass": (4, 8, "int"), "flowlabel": (12, 20, "int"), "len": (32, 16, "int"),
             "nextheader": (48, 8, "int"), "hoplimit": (56, 8, "int"), "src": (64, 128, "ip6"), "dst": (192, 128, "ip6")},
    "udp": {"srcport": (0, 16, "int"), "dstport": (16, 16, "int"), "len": (32, 16, "int"), "checksum": (48, 16, "int")},
    "tcp": {"srcport": (0, 16, "int"), "dstport": (16, 16, "int"), "seq": (32, 32, "int"), "ack": (64, 32, "int"),
            "dataoff": (96, 4, "int"), "len": (96, 4, "int"), "flags": (100, 12, "int"), "winsize": (112, 16, "int"),
            "checksum": (128, 16, "int"), "urgent": (144, 16, "int")},
}
READONLY = {("ipv4", "version"), ("ipv6", "version")}
MINLEN = {"eth": 14, "vlan": 4, "ipv4": 20, "ipv6": 40, "udp": 8, "tcp": 20}
# which layer property names select which inner layer
INNER_NAMES = {"eth": ("vlan", "ipv4", "ipv6"), "vlan": ("vlan", "ipv4", "ipv6"), "ipv4": ("tcp", "udp", "ipv6"), "ipv6": ("tcp", "udp")}


def field_value(kind, frame, start, name):
    off, width, k = FIELDS[kind][name]
    v = bits(frame, start, off, width)
    if k == "int":
        return v
    if k == "bool":
        return bool(v)
    raw = v.to_bytes(width // 8, "big")
    if k == "mac":
        return ("mac", raw)
    if k == "ip4":
        return ("ip4", raw)
    return ("ip6", raw)


def header_len(kind, frame, start):
    """length of the header as its length fields say (None if malformed)"""
    if kind == "ipv4":
        ihl = frame[start] & 0xF
        return ihl * 4
    if kind == "tcp":
        return (frame[start + 12] >> 4) * 4
    return MINLEN[kind]


def next_kind(kind, frame, start):
    """layer selected by the EtherType / protocol / next header field, or None"""
    if kind in ("eth", "vlan"):
        et = bits(frame, start, 96 if kind == "eth" else 16, 16)
        return {ET_VLAN: "vlan", ET_IPV4: "ipv4", ET_IPV6: "ipv6"}.get(et)
    if kind == "ipv4":
        return {P_TCP: "tcp", P_UDP: "udp", P_IPV6: "ipv6"}.get(frame[start + 9])
    if kind == "ipv6":
        return {P_TCP: "tcp", P_UDP: "udp"}.get(frame[start + 6])
    return None


def decode(frame):
    """-> list of layers from the outermost: ("eth", start) ... ; a layer that does not fit is ("error", kind, start);
    decoding stops at an unsupported / malformed layer. Layer i is what $ (i+1) denotes."""
    out = []
    kind, start = "eth", 0
    while kind is not None:
        if len(frame) < start + MINLEN[kind]:
            out.append(("error", kind, start))
            break
        hl = header_len(kind, frame, start)
        if hl < MINLEN[kind] or start + hl > len(frame):
            # header length field is malformed or points beyond the capture
            out.append(("malformed", kind, start))
            break
        out.append((kind, start))
        nk = next_kind(kind, frame, start)
        start = start + hl
        kind = nk
    return out


def consistent(frame):
    """True when every length field agrees with the capture (payload ends are only judged then)"""
    for l in decode(frame):
        if l[0] in ("error", "malformed"):
            return False
        kind, start = l
        if kind == "ipv4":
            tl = bits(frame, start, 16, 16)
            if start + tl != len(frame):
                return False
        if kind == "ipv6":
            pl = bits(frame, start, 32, 16)
            if start + 40 + pl != len(frame):
                return False
        if kind == "udp":
            ln = bits(frame, start, 32, 16)
            if start + ln != len(frame):
                return False
    return True


def ip6_ref(text):
    return ipaddress.IPv6Address(text).packed


def ip4_ref(text):
    return ipaddress.IPv4Address(text).packed


# ---------------------------------------------------------------------------
# random frames

def rand_bytes(rng, n):
    return bytes(rng.getrandbits(8) for _ in range(n))


def rand_frame(rng, well_formed=None):
    """-> (frame bytes, description tuple). Structure-aware: every IHL / data offset, QinQ, unknown types."""
    if well_formed is None:
        well_formed = rng.random() < 0.6
    desc = []
    pay = rand_bytes(rng, rng.choice([0, 1, 4, 7, 20, 33, 64]))
    l4 = rng.choice(["tcp", "udp", "other", "none"])
    if l4 == "tcp":
        doff = 5 if well_formed and rng.random() < 0.5 else (rng.randint(5, 15) if well_formed else rng.randint(0, 15))
        seg = tcp(rng.getrandbits(16), rng.getrandbits(16), pay, rng.getrandbits(32), rng.getrandbits(32), doff,
                  rng.getrandbits(12) if rng.random() < 0.5 else rng.choice([0x002, 0x010, 0x018, 0x011, 0x1FF, 0xFFF, 0]),
                  rng.getrandbits(16), rng.getrandbits(16), rng.getrandbits(16) if rng.random() < 0.7 else 0)
        proto = P_TCP
        desc.append("tcp/doff%d" % doff)
    elif l4 == "udp":
        seg = udp(rng.getrandbits(16), rng.getrandbits(16), pay, None if well_formed else rng.getrandbits(16), rng.getrandbits(16))
        proto = P_UDP
        desc.append("udp")
    elif l4 == "other":
        seg = pay
        proto = rng.choice([1, 2, 47, 50, 89, 132, 0, 255, rng.getrandbits(8)])
        if proto in (6, 17, 41):
            proto = 1
        desc.append("proto%d" % proto)
    else:
        seg = b""
        proto = rng.choice([59, 0, 1])
        desc.append("nol4")
    l3 = rng.choice(["ipv4", "ipv4", "ipv6", "ipv6in4", "other"])
    if l3 == "ipv4":
        ihl = 5 if well_formed and rng.random() < 0.5 else (rng.randint(5, 15) if well_formed else rng.randint(0, 15))
        pkt = ipv4(rand_bytes(rng, 4), rand_bytes(rng, 4), proto, seg, ihl, rng.getrandbits(6), rng.getrandbits(2),
                   None if well_formed else rng.getrandbits(16), rng.getrandbits(16), rng.getrandbits(3), rng.getrandbits(13),
                   rng.getrandbits(8), rng.getrandbits(16), version=4 if well_formed else rng.getrandbits(4))
        et = ET_IPV4
        desc.append("ipv4/ihl%d" % ihl)
    elif l3 == "ipv6":
        nh = proto if proto != P_IPV6 else 59
        pkt = ipv6(rand_bytes(rng, 16), rand_bytes(rng, 16), nh, seg, rng.getrandbits(8), rng.getrandbits(20),
                   None if well_formed else rng.getrandbits(16), rng.getrandbits(8), 6 if well_formed else rng.getrandbits(4))
        et = ET_IPV6
        desc.append("ipv6")
    elif l3 == "ipv6in4":
        inner = ipv6(rand_bytes(rng, 16), rand_bytes(rng, 16), proto if proto != P_IPV6 else 59, seg, rng.getrandbits(8), rng.getrandbits(20))
        pkt = ipv4(rand_bytes(rng, 4), rand_bytes(rng, 4), P_IPV6, inner, 5 if rng.random() < 0.6 else rng.randint(5, 15))
        et = ET_IPV4
        desc.append("ipv6-in-ipv4")
    else:
        pkt = seg
        et = rng.choice([0x0806, 0x88CC, 0x9100, 0x0000, 0xFFFF, 0x8847, rng.getrandbits(16)])
        if et in (ET_VLAN, ET_IPV4, ET_IPV6):
            et = 0x0806
        desc.append("ethertype%04x" % et)
    if l3 in ("ipv4", "ipv6") and rng.random() < 0.07:
        # an IEEE 802.3 frame: length field instead of an EtherType, LLC/SNAP header, then the same network layer. The type
        # field (<= 1500) selects no supported layer, so everything after the Ethernet header is payload.
        snap = b"\xaa\xaa\x03\x00\x00\x00" + (et.to_bytes(2, "big") if rng.random() < 0.8 else b"\x08\x06")
        pkt = snap + pkt
        et = min(len(pkt), 1500) if rng.random() < 0.8 else rng.choice([0, 46, 1500])
        desc.append("802.3-snap")
    nv = rng.choice([0, 0, 0, 1, 1, 2])
    for i in range(nv):
        pkt = vlan(rng.getrandbits(3), rng.getrandbits(1), rng.getrandbits(12), et, pkt)
        et = ET_VLAN
    if nv:
        desc.append("vlan%d" % nv)
    frame = eth(rand_bytes(rng, 6), rand_bytes(rng, 6), et, pkt)
    return frame, tuple(reversed(desc))


def truncations(frame):
    """every prefix of the frame"""
    return [frame[:n] for n in range(len(frame) + 1)]
