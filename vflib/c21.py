"""C21 - file reads return the file's bytes exactly once, in order, however chunked.

Oracle: a byte stream with a cursor. Call sequences of read(f) / read(f, n) /
read_line(f) / read_to_string(f) on one handle (probe, files) and
read(stdin[, n]) / read_line(stdin) fed through a pipe with write schedules
(real binary) must return successive slices that concatenate to a prefix of
the content and stop short only at end of input. Write side: file content
after the program ends (or after flush) per open mode r / w / a / x."""
import os
import shutil
import subprocess
import threading
import time

from . import core
from .core import Case
from .val import canon_dump, lit, show

CK = ("fn ck(a) { let s = 0; let i = 0; let n = len(a); while i < n { s = (s * 31 + int(a[i])) % 1000000007; i = i + 1; } [n, s] }\n"
      "fn cks(t) { if is_error(t) { \"E\" } else { ck(encode_utf8(t)) } }\n"
      "fn cka(t) { if is_error(t) { \"E\" } else { ck(t) } }\n")


def ck(b):
    s = 0
    for x in b:
        s = (s * 31 + x) % 1000000007
    return ("a", (("i", len(b)), ("i", s)))


SIZES = [0, 1, 2, 100, 4095, 4096, 4097, 8091, 8092, 8191, 8192, 8193, 12288, 20000, 65535, 65536, 65537, 70000, 140000]
NS = [0, 1, 2, 100, 4095, 4096, 4097, 8092, 8192, 8193, 12288, 20000, 65535, 65536, 65537, 100000, 4294967296, 4294967297]


def content(rng, size, text, multibyte=True):
    if text:
        out = bytearray()
        while len(out) < size:
            ln = rng.choice([0, 1, 10, 79, 200, 5000])
            line = bytes(rng.choice(b"abcdefghij XYZ0123456789,.") for _ in range(ln))
            if multibyte and rng.random() < 0.1:
                line += "é日".encode("utf-8")
            out += line + b"\n"
        out = bytes(out[:size])
        # do not cut a multi-byte character
        while out and (out[-1] & 0xC0) == 0x80:
            out = out[:-1]
        if out and out[-1] >= 0xC0:
            out = out[:-1]
        if rng.random() < 0.5 and out.endswith(b"\n"):
            out = out[:-1]
        return bytes(out)
    return bytes(rng.getrandbits(8) for _ in range(size))


def gen_calls(rng, text):
    calls = []
    for _ in range(rng.randint(1, 10)):
        k = rng.random()
        if k < 0.5:
            calls.append(("readn", rng.choice(NS)))
        elif k < 0.65:
            calls.append(("read",))
        elif text and k < 0.9:
            calls.append(("line",))
        elif text:
            calls.append(("tostring",))
        else:
            calls.append(("readn", rng.choice(NS)))
    return calls


def model(data, calls):
    pos = 0
    out = []
    for c in calls:
        if c[0] == "readn":
            chunk = data[pos:pos + c[1]]
        elif c[0] in ("read", "tostring"):
            chunk = data[pos:]
        else:
            j = data.find(b"\n", pos)
            chunk = data[pos:] if j < 0 else data[pos:j + 1]
        pos += len(chunk)
        out.append(ck(chunk))
    return out


def call_src(c, h):
    if c[0] == "readn":
        return "cka(read(%s, %d))" % (h, c[1])
    if c[0] == "read":
        return "cka(read(%s))" % h
    if c[0] == "line":
        return "cks(read_line(%s))" % h
    return "cks(read_to_string(%s))" % h


def feed(proc, data, schedule):
    """writes data to the child's stdin in chunks with delays; closes at the end"""
    try:
        pos = 0
        for size, delay in schedule:
            if pos >= len(data):
                break
            proc.stdin.write(data[pos:pos + size])
            proc.stdin.flush()
            pos += size
            if delay:
                time.sleep(delay)
        if pos < len(data):
            proc.stdin.write(data[pos:])
        proc.stdin.close()
    except (BrokenPipeError, OSError, ValueError):
        pass


def run(chk):
    rng = chk.rng
    quick = chk.tier == "quick"
    chk.rule = ("file contents (binary and UTF-8, sizes around 0, 1, 4096, 8092, 8192, 12288, 20000, 70000) x call sequences of length "
                "1-10 with n around the same boundaries; stdin through a pipe with write schedules (chunks 1..9000 bytes, delays 0-30 ms); "
                "write sequences (strings, bytes, byte arrays, packets) per open mode on existing and missing files, with and without "
                "flush, in-process and through the real binary; distinct = distinct (vehicle, content class, size class, call kinds)")
    chk.assumptions = ["delays are workload, not verdicts: results are compared on data only", "text-only calls (read_line, read_to_string) are "
                       "issued on UTF-8 content only", "a negative byte count is not generated"]
    chk.floor = 500
    chk.rule += '; plus 2-3 append handles on one file with interleaved flushed writes, byte arrays / packets at and beyond the write-buffer size after pending small writes; stdin and file contents of 65535-300000 bytes, read counts around 2^16 and 2^32'
    work = core.scratch_dir()
    try:
        cases = []
        meta = {}
        n_files = 400 if quick else 8000
        for i in range(n_files):
            text = rng.random() < 0.5
            size = rng.choice(SIZES) if rng.random() < 0.8 else rng.randint(0, 30000)
            if quick and size == 70000 and rng.random() < 0.7:
                size = 20000
            calls = gen_calls(rng, text)
            # byte-count reads may stop inside a multi-byte character, which text reads then (rightly) refuse
            data = content(rng, size, text, multibyte=not any(c[0] == "readn" for c in calls))
            p = os.path.join(work, "r%d" % i)
            with open(p, "wb") as f:
                f.write(data)
            src = CK + "let __o = []; let f = open(%s);\n" % lit(p) + "\n".join("push(__o, %s);" % call_src(c, "f") for c in calls)
            cid = "r%d" % i
            cases.append(Case(cid, src, {"globals": "__o", "steps": 20000000}))
            meta[cid] = ("read", data, calls, text)
        # write side (probe): each case = mode, pre-existing?, writes, flush?
        n_w = 300 if quick else 6000
        for i in range(n_w):
            mode = rng.choice(["w", "a", "x", "w", "a"])
            exists = rng.random() < 0.5
            p = os.path.join(work, "w%d" % i)
            old = content(rng, rng.choice([0, 5, 100, 5000]), False) if exists else None
            if exists:
                with open(p, "wb") as f:
                    f.write(old)
            writes = []
            lines = ["let __o = []; let f = open(%s, \"%s\");" % (lit(p), mode), "push(__o, is_error(f));", "if !is_error(f) {"]
            for _ in range(rng.randint(0, 6)):
                k = rng.randrange(6)
                if k == 4:
                    # a byte array at / beyond the size of the write buffer, after whatever is still pending in it
                    big = rng.choice([8191, 8192, 8193, 9000, 20000])
                    writes.append(b"Y" * big)
                    lines.append("push(__o, write(f, encode_utf8(\"Y\" * %d)));" % big)
                elif k == 5:
                    bp_ = os.path.join(work, "bigpkt.pcap")
                    if not os.path.exists(bp_):
                        from . import pkt as _pkt
                        with open(bp_, "wb") as fh:
                            fh.write(_pkt.pcap_file([(3, 4, bytes(range(256)) * 40)]))
                    import struct as _st
                    writes.append(_st.pack("<IIII", 3, 4, 10240, 10240) + bytes(range(256)) * 40)
                    lines.append("push(__o, write(f, pcap_read_next(pcap_open(%s))));" % lit(bp_))
                elif k == 0:
                    s = "".join(rng.choice("abc xyz09é\n") for _ in range(rng.choice([0, 1, 10, 300])))
                    writes.append(s.encode("utf-8"))
                    lines.append("push(__o, write(f, %s));" % lit(s))
                elif k == 1:
                    b = rng.getrandbits(8)
                    writes.append(bytes([b]))
                    lines.append("push(__o, write(f, byte(%d)));" % b)
                elif k == 2:
                    bs = [rng.getrandbits(8) for _ in range(rng.choice([0, 1, 7, 100]))]
                    writes.append(bytes(bs))
                    lines.append("push(__o, write(f, [%s]));" % ", ".join("byte(%d)" % x for x in bs))
                else:
                    big = rng.choice([4096, 8192, 8193, 20000])
                    writes.append(b"z" * big)
                    lines.append("push(__o, write(f, \"z\" * %d));" % big)
            flush = rng.random() < 0.5
            if flush:
                lines.append("push(__o, flush(f));")
            lines.append("}")
            cid = "w%d" % i
            cases.append(Case(cid, "\n".join(lines), {"globals": "__o", "steps": 1000000}))
            meta[cid] = ("write", mode, exists, old, writes, p, flush)
        # mode r on a missing file / x on an existing one are error objects (C22 judges the object; here: no file is created)
        res = core.run_cases(cases, timeout=900)
        for cid, m in meta.items():
            r = res.get(cid)
            if r is None:
                chk.inconc("missing result")
                continue
            oc = r.get("outcome")
            if oc == "panic":
                chk.violation("panic|" + core.panic_site_sig(r["panic"]["loc"], r["panic"]["msg"]), "file I/O panics: %s" % r["panic"]["msg"], {"case": cid})
                continue
            if oc != "ok":
                chk.violation("io-raises|%s|%s" % (m[0], core.msg_class((r.get("rt") or {}).get("msg", oc))[:40]),
                              "file I/O script ends with %s %s" % (oc, r.get("rt")), {"src": next(c.src for c in cases if c.id == cid)[-500:]})
                continue
            obs = list(canon_dump(r["globals"]["__o"])[1])
            if m[0] == "read":
                _, data, calls, text = m
                exp = model(data, calls)
                szc = "0" if not data else "<4096" if len(data) < 4096 else "<=8192" if len(data) <= 8192 else ">8192"
                chk.observed(("file", "text" if text else "binary", szc, tuple(c[0] for c in calls[:3])))
                if len(chk.samples) < 6 and len(data) > 8192:
                    chk.sample({"file_size": len(data), "calls": [list(c) for c in calls], "returned_lengths": [x[1][0][1] if x[0] == "a" else show(x) for x in obs]})
                if obs != exp:
                    k = next((j for j in range(min(len(obs), len(exp))) if obs[j] != exp[j]), min(len(obs), len(exp)))
                    chk.violation("read|%s|%s" % (calls[k][0] if k < len(calls) else "end", szc),
                                  "call #%d %s on a %d-byte file returned [length, checksum] %s, the byte-stream model gives %s (calls %s)" % (
                                      k, calls[k] if k < len(calls) else "-", len(data), show(obs[k]) if k < len(obs) else "<nothing>",
                                      show(exp[k]) if k < len(exp) else "<nothing>", calls), {"size": len(data), "calls": calls, "text": text})
            else:
                _, mode, exists, old, writes, p, flush = m
                opened_err = obs[0] == ("bool", True)
                chk.observed(("write", mode, exists, len(writes) > 0, flush))
                try:
                    final = open(p, "rb").read()
                except OSError:
                    final = None
                if mode == "x" and exists:
                    if not opened_err:
                        chk.violation("mode|x-on-existing", "open(path, \"x\") on an existing file did not yield an error object", {})
                    elif final != old:
                        chk.violation("mode|x-clobbered", "open(path, \"x\") on an existing file changed it", {})
                    continue
                if opened_err:
                    chk.violation("mode|%s|%s" % (mode, "existing" if exists else "missing"),
                                  "open(path, \"%s\") on %s file yields an error object" % (mode, "an existing" if exists else "a missing"), {"mode": mode, "exists": exists})
                    continue
                payload = b"".join(writes)
                want = (old if (mode == "a" and exists) else b"") + payload
                if final != want:
                    chk.violation("content|%s|%s" % (mode, "existing" if exists else "missing"),
                                  "after the program ended the file holds %d bytes, expected %d (mode %s, %d writes, flush=%s)" % (
                                      -1 if final is None else len(final), len(want), mode, len(writes), flush), {"mode": mode})
                    continue
                rets = obs[1:1 + len(writes)]
                if rets != [("i", len(w)) for w in writes]:
                    chk.violation("write-return", "write returned %s for writes of %s bytes" % ([show(x) for x in rets], [len(w) for w in writes]), {})
        # ---- several handles on one path: bytes written through an append handle go to the end of the file as it is at that
        # moment, whoever made it grow in between
        mcases = []
        mmeta = {}
        for t in range(30 if quick else 600):
            p = os.path.join(work, "m%d.txt" % t)
            old = content(rng, rng.choice([0, 7, 100]), True, multibyte=False)
            with open(p, "wb") as f:
                f.write(old)
            nh = rng.randint(2, 3)
            lines = ["let __o = [];"] + ["let h%d = open(%s, \"a\");" % (k, lit(p)) for k in range(nh)]
            expect = old
            for step in range(rng.randint(2, 8)):
                k = rng.randrange(nh)
                piece = ("<%d:%d:%s>" % (k, step, "x" * rng.choice([0, 1, 20, 300]))).encode()
                lines.append("write(h%d, %s); flush(h%d);" % (k, lit(piece.decode()), k))
                expect += piece
            lines.append("push(__o, 1);")
            cid = "m%d" % t
            mcases.append(Case(cid, "\n".join(lines), {"globals": "__o", "steps": 100000}))
            mmeta[cid] = (p, expect, nh)
        mres = core.run_cases(mcases)
        for cid, (p, expect, nh) in mmeta.items():
            r = mres.get(cid)
            if r is None or r.get("outcome") != "ok":
                if r is not None and r.get("outcome") == "panic":
                    chk.violation("panic|" + core.panic_site_sig(r["panic"]["loc"], r["panic"]["msg"]), "file I/O panics", {"case": cid})
                else:
                    chk.inconc("append-handles case: %s" % ((r or {}).get("outcome")))
                continue
            chk.observed(("append-handles", nh, len(expect) > 200))
            try:
                final = open(p, "rb").read()
            except OSError:
                final = None
            if final != expect:
                chk.violation("content|a|several-handles", "%d append handles on one file, each write flushed: the file holds %r..., expected %r..." % (
                    nh, (final or b"")[:80], expect[:80]), {"src": next(c.src for c in mcases if c.id == cid)[-600:]})
        # ---- a write that fails (wrong element kind, full device) leaves no trace in later writes on other handles
        iso = []
        good = os.path.join(work, "iso-good.bin")
        for tag, failing in (("non-byte-element", ["write(open(%s, \"w\"), [byte(65), byte(66), 1]);" % lit(os.path.join(work, "iso-bad.bin"))]),
                             ("non-byte-element-late", ["let bad = open(%s, \"w\"); write(bad, [byte(1), byte(2), byte(3), \"x\"]);" % lit(os.path.join(work, "iso-bad2.bin"))]),
                             ("full-device", ["let fd = open(\"/dev/full\", \"w\"); write(fd, encode_utf8(\"q\" * 9000)); flush(fd);"]),
                             ("full-device-string", ["let fs = open(\"/dev/full\", \"w\"); write(fs, \"q\" * 20000);"]),
                             ("reader-handle", ["write(open(%s), [byte(9), byte(9)]);" % lit(good + ".src")]),
                             ("wrong-kind", ["write(open(%s, \"a\"), map {1: 2});" % lit(os.path.join(work, "iso-bad3.bin"))])):
            with open(good + ".src", "wb") as f:
                f.write(b"source")
            iso.append((tag, [], failing, ["let g = open(%s, \"w\"); puts(write(g, [byte(67), byte(68)])); puts(write(g, \"EF\")); puts(write(g, byte(71))); flush(g);" % lit(good),
                                           "puts(read(open(%s)));" % lit(good), "let h = open(%s, \"a\"); write(h, encode_utf8(\"tail\")); flush(h); puts(len(read(open(%s))));" % (lit(good), lit(good))],
                        [good]))
        core.isolation_after_errors(chk, "write", iso)
        # ---- a file written by a filter program holds everything written to it when the program has ended, also when the
        # program ends because nobody reads its output any more
        from . import pkt as _pkt
        cap = os.path.join(work, "many.pcap")
        with open(cap, "wb") as f:
            f.write(_pkt.pcap_file([(k, k, bytes((k + j) & 0xFF for j in range(60 + k % 7))) for k in range(300)]))
        journal = os.path.join(work, "journal.txt")
        fprog = os.path.join(work, "fj.p2")
        with open(fprog, "w") as f:
            f.write("let j = open(%s, \"w\"); let n = 0;\n@ true { n = n + write(j, \"p\"); }\n@ true\n@ end { write(j, \"E\"); eprintln(\"END\"); }\n" % lit(journal))
        for k, mode in enumerate(("reader-gone", "reader-gone", "full-device", "normal")):
            if os.path.exists(journal):
                os.unlink(journal)
            with open(cap, "rb") as fi:
                if mode == "reader-gone":
                    rfd, wfd = os.pipe()
                    os.close(rfd)
                    with os.fdopen(wfd, "wb") as fo:
                        rr = core.run_binary([fprog], stdin_file=fi, stdout_file=fo, release=(k % 2 == 1), timeout=30)
                elif mode == "full-device":
                    with open("/dev/full", "wb") as fo:
                        rr = core.run_binary([fprog], stdin_file=fi, stdout_file=fo, timeout=30)
                else:
                    rr = core.run_binary([fprog], stdin_file=fi, timeout=30)
            if rr["timeout"]:
                chk.inconc("timeout")
                continue
            chk.observed(("filter-journal", mode))
            if core.crashed(rr):
                chk.violation("journal|crash|%s" % mode, "the filter program crashes (%s)" % mode, {"stderr": rr["err"][-200:].decode("utf-8", "replace")})
                continue
            try:
                final = open(journal, "rb").read()
            except OSError:
                final = None
            # every 'p' the program wrote before it ended must be in the file; the stream loop may stop early when the output fails
            ended = b"END" in rr["err"]
            ok = final is not None and set(final) <= set(b"pE") and (final.endswith(b"E") == ended) and (len(final) >= 1 if mode != "normal" else final == b"p" * 300 + b"E")
            if not ok:
                chk.violation("journal|%s" % mode, "filter program with output %s: the journal file holds %r... (%s bytes), end filter ran: %s" % (
                    mode, (final or b"")[:20], None if final is None else len(final), ended), {"mode": mode})
        # ---- stdin through a pipe with write schedules (real binary)
        n_s = 60 if quick else 1500
        path = os.path.join(work, "s.p2")
        for t in range(n_s):
            text = rng.random() < 0.6
            size = rng.choice([0, 1, 100, 4096, 8192, 8193, 20000, 30000, 65535, 65536, 65537, 70000, 140000, 300000])
            data = content(rng, size, text, multibyte=False)
            calls = []
            for _ in range(rng.randint(1, 6)):
                k = rng.random()
                if k < 0.5:
                    calls.append(("readn", rng.choice(NS)))
                elif k < 0.7 or not text:
                    calls.append(("read",))
                else:
                    calls.append(("line",))
            src = CK + "\n".join("puts(%s);" % call_src(c, "stdin") for c in calls) + "\n"
            with open(path, "w") as f:
                f.write(src)
            sched = []
            left = len(data)
            while left > 0:
                sz = rng.choice([1, 2, 7, 100, 1000, 4096, 9000])
                sched.append((sz, rng.choice([0, 0, 0.001, 0.005, 0.03])))
                left -= sz
            exe = core.P2SH_REL if t % 2 else core.P2SH_DEV
            try:
                proc = subprocess.Popen([exe, path], stdin=subprocess.PIPE, stdout=subprocess.PIPE, stderr=subprocess.PIPE)
            except OSError:
                chk.inconc("spawn failed")
                continue
            th = threading.Thread(target=feed, args=(proc, data, sched))
            th.start()
            try:
                out, err = proc.stdout.read(), proc.stderr.read()
                proc.wait(timeout=120)
            except Exception:
                proc.kill()
                chk.inconc("stdin run timed out")
                th.join()
                continue
            th.join()
            exp = model(data, calls)
            exp_txt = "".join("[%d, %d]\n" % (e[1][0][1], e[1][1][1]) for e in exp)
            chk.observed(("stdin", "text" if text else "binary", len(data) > 8192, tuple(c[0] for c in calls[:3])))
            if proc.returncode not in (0,) or b"panicked" in err:
                chk.violation("stdin-crash", "reading stdin crashes: %s" % err[-200:], {"src": src})
            elif out.decode("utf-8", "replace") != exp_txt:
                got_lines = out.decode("utf-8", "replace").splitlines()
                exp_lines = exp_txt.splitlines()
                k = next((j for j in range(min(len(got_lines), len(exp_lines))) if got_lines[j] != exp_lines[j]), min(len(got_lines), len(exp_lines)))
                chk.violation("stdin|%s" % (calls[k][0] if k < len(calls) else "end"),
                              "call #%d %s on %d bytes of piped stdin (%d chunks) returned [length, checksum] %s, expected %s; stderr %r" % (
                                  k, calls[k] if k < len(calls) else "-", len(data), len(sched), got_lines[k] if k < len(got_lines) else "<nothing>",
                                  exp_lines[k] if k < len(exp_lines) else "<nothing>", err[-100:]), {"calls": calls, "size": len(data)})
        # ---- "closed at program end" through the real binary, no flush
        for t in range(20 if quick else 300):
            p = os.path.join(work, "e%d" % t)
            n = rng.choice([1, 100, 5000, 9000, 20000])
            mode = rng.choice(["w", "a", "x"])
            with open(path, "w") as f:
                f.write("let f = open(%s, \"%s\"); write(f, \"q\" * %d); write(f, [byte(10)]);\n" % (lit(p), mode, n))
            rr = core.run_binary([path], release=(t % 2 == 0), timeout=30)
            chk.observed(("at-exit", mode, n > 8192))
            try:
                final = open(p, "rb").read()
            except OSError:
                final = None
            if final != b"q" * n + b"\n":
                chk.violation("content-at-exit|%s" % mode, "a file written through open(.., \"%s\") without flush holds %s bytes after the program ended, expected %d (stderr %r)" % (
                    mode, None if final is None else len(final), n + 1, rr["err"][-120:]), {"mode": mode})
    finally:
        shutil.rmtree(work, ignore_errors=True)
