"""C04 - names resolve to the innermost visible binding and closures capture it.

Same differential monitor as C02, with a generator that concentrates on
binding structure: shadowing at every depth, sibling blocks re-using names,
uses after a block has ended (must be compile errors), functions defined
inside blocks, closures created in loops and called after their frame is
gone, closures writing captured variables, globals written from functions."""
from . import core, gen
from .c02 import compare, node_kinds
from .core import Case
from .val import canon_dump, show

HAND = [
    # (program text, expected observation list as p2sh values rendered by show(), or 'compile_error')
    ("let a = 1; { let a = 2; push(__o, a); } push(__o, a); { push(__o, a); let a = 3; push(__o, a); } push(__o, a);", ["2", "1", "1", "3", "1"]),
    ("let k = 5; fn h() { { let k = 6; push(__o, k); } push(__o, k); } h();", ["6", "5"]),
    ("fn outer() { let r = 0; { let a = 5; let f = fn() { a + 1 }; r = f(); } r } push(__o, outer());", ["6"]),
    ("fn mk() { let c = 0; fn() { c = c + 1; c } } let f = mk(); let g = mk(); push(__o, f()); push(__o, f()); push(__o, g());", ["1", "2", "1"]),
    ("fn mk(n) { let a = n; let f = fn() { a }; a = a + 100; [f, a] } let r = mk(1); push(__o, r[0]()); push(__o, r[1]);", ["1", "101"]),
    ("let g = 1; fn w() { g = g + 1; } w(); w(); push(__o, g);", ["3"]),
    ("let g = 1; fn r() { g } g = 7; push(__o, r());", ["7"]),
    ("fn f() { let fs = []; let i = 0; while i < 3 { let j = i; push(fs, fn() { j * 10 }); i = i + 1; } fs } let fs = f(); push(__o, fs[0]()); push(__o, fs[1]()); push(__o, fs[2]());", ["0", "10", "20"]),
    ("{ let a = 1; } push(__o, a);", "compile_error"),
    ("fn f() { { let a = 1; } a } f();", "compile_error"),
    ("fn f() { let g = fn() { zz }; g() } f();", "compile_error"),
    ("push(__o, a); let a = 1;", "compile_error"),
    ("fn f() { a } let a = 1; f();", "compile_error"),
    ("if true { let q = 1; } push(__o, q);", "compile_error"),
    ("let i = 0; while i < 1 { let w = 1; i = i + 1; } push(__o, w);", "compile_error"),
    ("let x = match 1 { 1 => { let m = 2; m } }; push(__o, m);", "compile_error"),
    ("fn f(p) { p } push(__o, p);", "compile_error"),
    ("fn f(a) { fn g(b) { fn h(c) { a + b + c } h } g } push(__o, f(1)(2)(3));", ["6"]),
    ("fn f(a) { let x = a; fn() { let y = x; fn() { x = x + 1; y = y + 10; x + y } } } let h = f(1)(); push(__o, h()); push(__o, h());", ["13", "24"]),
    ("let a = 1; fn f() { a } { let a = 2; push(__o, f()); push(__o, a); }", ["1", "2"]),
    ("let a = 1; { let f = fn() { a }; let a = 2; push(__o, f()); push(__o, a); }", ["1", "2"]),
    # blocks inside a closure body must not disturb what the closure has captured
    ("fn mk() { { let acc = 0; return fn(x) { { acc = acc + x; } acc }; } } let f = mk(); push(__o, f(5)); push(__o, f(7));", ["5", "12"]),
    ("fn mk() { let r = null; { let acc = 10; r = fn(x) { if x > 0 { acc = acc + x; } { let t = acc; acc = t * 2; } acc }; } r } let f = mk(); push(__o, f(1)); push(__o, f(0));", ["22", "44"]),
    ("fn mk() { let acc = 1; fn() { { acc = acc + 1; } { acc = acc * 3; } acc } } let f = mk(); push(__o, f()); push(__o, f());", ["6", "21"]),
    ("fn mk() { { let a = 1; { let b = 2; return fn() { let i = 0; while i < 2 { a = a + b; i = i + 1; } { b = b + 1; } a * 100 + b }; } } } let f = mk(); push(__o, f()); push(__o, f());", ["503", "1104"]),
    ("fn mk() { { let acc = 0; return fn(x) { match x { 0 => { acc = acc + 100; }, _ => { acc = acc + x; } } let out = acc; out }; } } let f = mk(); push(__o, f(0)); push(__o, f(3));", ["100", "103"]),
    ("fn mk() { { let n = 5; return fn() { fn() { { n = n + 1; } n } }; } } let g = mk()(); push(__o, g()); push(__o, g());", ["6", "7"]),
    # a closure that first reads a captured name and then binds the same name itself
    ("fn mk() { { let x = 1; return fn() { let y = x; let x = 10; x + y }; } } push(__o, mk()());", ["11"]),
    ("fn mk() { { { let x = 1; return fn() { let y = x; { let x = 10; push(__o, x + y); } x + y }; } } } push(__o, mk()());", ["11", "2"]),
    ("fn mk() { let x = 1; fn() { let y = x; let x = 10; x + y } } push(__o, mk()());", ["11"]),
    ("fn mk(x) { { let z = x; return fn() { let a = z; let z = a + 5; let z2 = z; fn() { z2 + z } }; } } push(__o, mk(1)()());", ["12"]),
    # a parameter that has the name of its own function is the parameter
    ("fn f(f) { f + 1 } push(__o, f(2));", ["3"]),
    ("let g = fn(g) { g * 2 }; push(__o, g(4));", ["8"]),
    ("fn h(h) { fn() { h } } push(__o, h(5)());", ["5"]),
    ("fn k(a, k, b) { [a, k, b] } push(__o, k(1, 2, 3));", ["[1, 2, 3]"]),
    ("fn outer() { fn inner(inner) { inner + 100 } inner(1) } push(__o, outer());", ["101"]),
    # the same name bound twice in one nested block, then used after the block from a later function / block
    ("let t = \"global\"; { let t = \"first\"; let t = \"second\"; push(__o, t); } fn later() { t } push(__o, later()); { push(__o, t); }", ["\"second\"", "\"global\"", "\"global\""]),
    ("{ let tmp = 1; let tmp = 2; } fn later() { tmp } later();", "compile_error"),
    ("fn f() { let a = \"outer\"; { let a = 1; let a = 2; let a = 3; } let g = fn() { a }; g() } push(__o, f());", ["\"outer\""]),
    # an assignment whose right-hand side is a function literal with a parameter named like the assigned variable
    ("fn f(a, b) { b = fn(b) { b }; [a, b(5)] } push(__o, f(1, 2));", ["[1, 5]"]),
    ("fn f(a, b, c) { c = fn(a) { a * 2 }; b = fn(c) { c + 1 }; [a, b(10), c(10)] } push(__o, f(1, 2, 3));", ["[1, 11, 20]"]),
    ("let g1 = 1; let g2 = 2; g2 = fn(g2) { g2 + g1 }; push(__o, g2(10)); push(__o, g1);", ["11", "1"]),
    ("fn f(a, b) { let i = 0; while i < 2 { i = fn(i) { i + 1 }(i); } b = i; [a, b] } push(__o, f(7, 8));", ["[7, 2]"]),
    # a closure that assigns a captured variable, binds the same name in a nested block, and reads it after that block
    ("fn mk() { { let c = 0; return fn() { c = c + 10; { let c = 99; } c }; } } let f = mk(); push(__o, f()); push(__o, f());", ["10", "20"]),
    ("fn mk() { { { let c = 1; return fn() { c = c * 2; if true { let c = 0; c; } { let c = 5; } c }; } } } let f = mk(); push(__o, f()); push(__o, f());", ["2", "4"]),
    ("fn mk() { let c = 0; fn() { c = c + 1; { let c = 50; { let c = 60; } } c } } let f = mk(); push(__o, f()); push(__o, f());", ["1", "2"]),
    # the name of an enclosing function, used from a helper closure inside it, is that function
    ("fn f(n) { let g = fn() { f(n - 1) }; if n <= 0 { 0 } else { g() + 1 } } push(__o, f(3));", ["3"]),
    ("fn walk(t) { let go = fn(k) { if k == 0 { 0 } else { 1 + walk(k - 1) } }; go(t) } push(__o, walk(3));", ["3"]),
    ("let f = fn(n) { let h = fn(m) { if m == 0 { 0 } else { f(m - 1) + 1 } }; h(n) }; push(__o, f(4));", ["4"]),
    ("fn outer(n) { fn inner(k) { if k == 0 { 100 } else { outer(k - 1) + 1 } } if n == 0 { 7 } else { inner(n) } } push(__o, outer(2)); push(__o, outer(1));", ["9", "8"]),
    ("fn count(n) { let hops = 0; let step = fn(k) { if k > 0 { count(k - 1) + 1 } else { 0 } }; step(n) } push(__o, count(3));", ["3"]),
]


BLOCKS = [("{ %s }", "block"), ("if true { %s }", "if"), ("if false { } else { %s }", "else"), ("let wi = 0; while wi < 1 { %s wi = wi + 1; }", "while"),
          ("loop { %s break; }", "loop"), ("match 1 { 1 => { %s }, _ => { } }", "match-arm"), ("{ { %s } }", "nested-block")]


def scope_matrix():
    """Every binding form x every block form x every place x (an outer binding of the same name exists / does not):
    after the block the name is the outer binding again, or unbound (compile error). -> HAND-style entries"""
    out = []
    for form in ("let", "fn"):
        def bind(v):
            return ("let x = %d;" % v) if form == "let" else ("fn x() { %d }" % v)
        use = "x" if form == "let" else "x()"
        for tmpl, kind in BLOCKS:
            for place in ("top", "function", "closure", "nested-function"):
                for outer in (True, False):
                    inner = "%s push(__o, %s);" % (bind(2), use)
                    core_ = (bind(1) + " " if outer else "") + (tmpl % inner) + " push(__o, %s);" % use
                    if place == "top":
                        text = core_
                    elif place == "function":
                        text = "fn host() { %s } host();" % core_
                    elif place == "closure":
                        text = "let host = fn() { %s 0 }; host();" % core_
                    else:
                        text = "fn a() { fn host() { %s } host(); } a();" % core_
                    out.append((text, ["2", "1"] if outer else "compile_error"))
    return out


def escape_scenarios(rng, n):
    """Functions created inside a block that outlive it: the block's bindings stay theirs however many
    bindings are made after the block. -> [(text, expected observations, shape)]"""
    out = []
    for t in range(n):
        nblocks = rng.randint(1, 3)
        after = rng.randint(0, 4)
        inside_fn = rng.random() < 0.4
        kinds = []
        pre = []
        body = []
        exp_calls = []   # (holder index, values per call)
        vals = {}
        for b in range(nblocks):
            tmpl, kind = rng.choice(BLOCKS)
            if inside_fn and kind == "while":
                tmpl, kind = BLOCKS[0]
            kinds.append(kind)
            a0, b0 = rng.randint(1, 90) * 100, rng.randint(1, 9)
            extra = rng.randint(0, 2)      # further bindings in the block before the captured ones
            inner = "".join("let pad%d_%d = %d; " % (b, e, -e - 1) for e in range(extra))
            inner += "let a%d = %d; let b%d = %d; h%d = fn() { a%d = a%d + 1; a%d + b%d };" % (b, a0, b, b0, b, b, b, b, b)
            if rng.random() < 0.5:
                inner += " a%d = a%d + 50;" % (b, b)      # after the function was created
                vals[b] = (a0, b0, 50)
            else:
                vals[b] = (a0, b0, 0)
            pre.append("let h%d = null;" % b)
            body.append(tmpl % inner)
        lets = ["let n%d = %d;" % (k, 7000 + k) for k in range(after)]
        ncalls = [rng.randint(1, 3) for _ in range(nblocks)]
        exp = []
        if not inside_fn:
            # top level: the block's bindings are global bindings, read and written by reference
            text = " ".join(pre + body + lets)
            order = [b for b in range(nblocks) for _ in range(ncalls[b])]
            rng.shuffle(order)
            cur = {b: vals[b][0] + vals[b][2] for b in range(nblocks)}
            for b in order:
                text += " push(__o, h%d());" % b
                cur[b] += 1
                exp.append(str(cur[b] + vals[b][1]))
            for k in range(after):
                text += " push(__o, n%d);" % k
                exp.append(str(7000 + k))
        else:
            # inside a function: locals are captured by value when the closure is created; its writes go to its own copy
            ret = "return [" + ", ".join(["h%d" % b for b in range(nblocks)] + ["n%d" % k for k in range(after)]) + "];"
            text = "fn mk() { " + " ".join(pre + body + lets) + " " + ret + " } let r = mk();"
            order = [b for b in range(nblocks) for _ in range(ncalls[b])]
            rng.shuffle(order)
            cur = {b: vals[b][0] for b in range(nblocks)}
            for b in order:
                text += " push(__o, r[%d]());" % b
                cur[b] += 1
                exp.append(str(cur[b] + vals[b][1]))
            for k in range(after):
                text += " push(__o, r[%d]);" % (nblocks + k)
                exp.append(str(7000 + k))
        out.append((text, exp, ("escape", "fn" if inside_fn else "top", tuple(kinds), after > 0)))
    return out


def run(chk):
    rng = chk.rng
    quick = chk.tier == "quick"
    chk.rule = ("random programs with shadowing at every depth, sibling blocks re-using names, closures in blocks and loops, "
                "writes to captured variables and globals, and uses of names whose block has ended (expected compile errors); plus "
                "hand-written binding scenarios; distinct = distinct set of AST node kinds x expected outcome")
    chk.assumptions = ["`let a = <expression mentioning a>` is not generated (the statement does not say which a the initialiser sees)",
                       "a closure's writes to a captured variable go to its own copy and persist between its calls"]
    chk.floor = 1200
    chk.rule += '; plus functions created in a block (7 block kinds, top level and inside a function) and called after 0-4 later bindings, closures with blocks between a write and a read of a captured variable, self-named parameters, double bindings, the scope matrix (let / fn statement x 7 block kinds x 4 places x an outer binding exists or not)'
    n = 3000 if quick else 120000
    jobs = []
    unspec = {}
    tries = 0
    while len(jobs) < n and tries < 30 * n:
        tries += 1
        g = gen.Gen(rng, shadow=True, max_depth=rng.choice([2, 3, 4]))
        g.use_dead = True
        prog = g.program()
        if g.expect_compile_error is not None:
            if gen.well_formed(prog):
                continue   # the 'dead' name happened to be visible after all
            jobs.append(("dead", prog, gen.PRELUDE + gen.render(prog)[0], None))
            continue
        if not gen.well_formed(prog):
            continue
        ev = gen.evaluate(prog)
        if ev["status"] in ("ok", "error") and ev.get("tags"):
            ev = {"status": "unspecified", "reason": "belongs to another property: " + ",".join(sorted(ev["tags"]))}
        if ev["status"] in ("unspecified", "steps"):
            k = ev.get("reason", ev["status"])
            unspec[k] = unspec.get(k, 0) + 1
            continue
        jobs.append(("wf", prog, gen.PRELUDE + gen.render(prog)[0], ev))
    cases = [Case("p%d" % i, text, {"globals": "__o", "final": 1, "steps": 400000}) for i, (_, _, text, _) in enumerate(jobs)]
    HAND_ALL = HAND + scope_matrix()
    for i, (text, exp) in enumerate(HAND_ALL):
        cases.append(Case("h%d" % i, gen.PRELUDE + text, {"globals": "__o", "steps": 100000}))
    esc = escape_scenarios(rng, 400 if quick else 20000)
    for i, (text, exp, shape) in enumerate(esc):
        cases.append(Case("e%d" % i, gen.PRELUDE + text, {"globals": "__o", "steps": 100000}))
    res = core.run_cases(cases)
    for i, (cls, prog, text, ev) in enumerate(jobs):
        r = res.get("p%d" % i)
        if r is None:
            chk.inconc("missing result")
            continue
        oc = r.get("outcome")
        kinds = node_kinds(prog)
        if cls == "dead":
            chk.observed(("dead-name-use", oc == "compile_error", frozenset(kinds)))
            if oc == "panic":
                continue
            if oc != "compile_error":
                chk.violation("accepted-out-of-scope-name", "a name used outside the block that binds it was accepted: outcome %s" % oc,
                              {"src": text, "result": {k: v for k, v in r.items() if k != "globals"}})
            continue
        if compare(chk, prog, text, r, ev, kinds, "scope"):
            chk.observed(("wf", frozenset(kinds)))
            if i % 397 == 0:
                chk.sample({"program": core.short(text, 400), "expected": ev["status"], "observations": [show(x) for x in ev["obs"][:8]]})
    for i, (text, exp) in enumerate(HAND_ALL):
        r = res.get("h%d" % i)
        if r is None:
            chk.inconc("missing result")
            continue
        oc = r.get("outcome")
        chk.observed(("hand", i))
        if exp == "compile_error":
            if oc != "compile_error" and oc != "panic":
                chk.violation("hand|accepted|%d" % i, "out-of-scope use accepted: %s" % text, {"src": text, "outcome": oc})
        else:
            got = [show(x) for x in canon_dump(r["globals"]["__o"])[1]] if "globals" in r else None
            if oc != "ok" or got != exp:
                chk.violation("hand|%d" % i, "%s: expected %s, observed %s (%s %s)" % (text, exp, got, oc, r.get("rt") or r.get("diag") or ""),
                              {"src": text, "expected": exp, "observed": got, "outcome": oc})
    for i, (text, exp, shape) in enumerate(esc):
        r = res.get("e%d" % i)
        if r is None:
            chk.inconc("missing result")
            continue
        oc = r.get("outcome")
        chk.observed(shape)
        got = [show(x) for x in canon_dump(r["globals"]["__o"])[1]] if "globals" in r else None
        if oc != "ok" or got != exp:
            chk.violation("escape|%s|%s|later-bindings=%s" % (shape[1], "+".join(sorted(set(shape[2]))), shape[3]),
                          "a function created in a block and called after the block ended: expected %s, observed %s (%s %s)" % (
                              exp, got, oc, r.get("rt") or r.get("diag") or ""), {"src": text, "expected": exp, "observed": got, "outcome": oc})
    for k, v in unspec.items():
        chk.count("discarded: " + k, v)
