"""C20 - filter mode emits exactly the selected packets with correct per-packet state.

Oracle: a Python model of the stream loop (prelude once; per packet every
filter in source order with NP/PL/WL/TSS/TSU; an action-less filter whose
pattern is true writes the packet as modified so far; `@ end` once with NP =
number of packets; without -s stdout = input global header + records, with
-s stdout = what the program prints). Vehicle: the real binary, both profiles,
random pcap streams fed through stdin."""
import os
import shutil

from . import core, pkt

MAC_NEW = "02:00:00:00:00:01"


class Pkt:
    def __init__(self, idx, sec, usec, data, wire):
        self.np = idx
        self.sec, self.usec, self.wire = sec, usec, wire
        self.data = bytearray(data)
        self.pl = len(data)

    def is_ipv4(self):
        return len(self.data) >= 34 and self.data[12:14] == b"\x08\x00" and (self.data[14] & 0xF) >= 5 and 14 + (self.data[14] & 0xF) * 4 <= len(self.data)


# pattern: (source text, python predicate over (pkt, state))
PATTERNS = [
    ("true", lambda p, s: True), ("false", lambda p, s: False),
    ("NP % 2 == 0", lambda p, s: p.np % 2 == 0), ("NP % 3 == 1", lambda p, s: p.np % 3 == 1), ("NP == 1", lambda p, s: p.np == 1),
    ("NP > 2", lambda p, s: p.np > 2), ("PL > 60", lambda p, s: p.pl > 60), ("PL <= 34", lambda p, s: p.pl <= 34), ("WL == PL", lambda p, s: p.wire == p.pl),
    ("WL > PL", lambda p, s: p.wire > p.pl), ("TSS % 2 == 1", lambda p, s: p.sec % 2 == 1), ("TSU < 500000", lambda p, s: p.usec < 500000),
    ("TSS > 1000 && TSU > 10", lambda p, s: p.sec > 1000 and p.usec > 10), ("NP < 3 || PL == 60", lambda p, s: p.np < 3 or p.pl == 60),
    ("cnt % 2 == 0", lambda p, s: s["cnt"] % 2 == 0), ("cnt > 1", lambda p, s: s["cnt"] > 1),
    ("PL >= 14 && ($1).type == 2048", lambda p, s: p.pl >= 14 and p.data[12:14] == b"\x08\x00"),
    ("PL >= 14 && ($1).type != 2048", lambda p, s: p.pl >= 14 and p.data[12:14] != b"\x08\x00"),
    # patterns that are not booleans are judged by their truthiness
    ("NP", lambda p, s: True), ("PL - 60", lambda p, s: p.pl != 60), ("cnt", lambda p, s: s["cnt"] != 0), ("\"\"", lambda p, s: False),
    ("[NP]", lambda p, s: True), ("TSU % 2", lambda p, s: p.usec % 2 != 0), ("null", lambda p, s: False), ("WL - PL", lambda p, s: p.wire != p.pl),
]


def act_count(p, s, out, err):
    s["cnt"] += 1


def act_sum(p, s, out, err):
    s["total"] += p.pl


def act_print(tag):
    def f(p, s, out, err):
        out.append("%s %d %d %d %d %d\n" % (tag, p.np, p.pl, p.wire, p.sec, p.usec))
    return f


def act_eprint(tag):
    def f(p, s, out, err):
        err.append("%s %d %d\n" % (tag, p.np, s["cnt"]))
    return f


def act_setmac(p, s, out, err):
    if p.pl >= 14:
        p.data[6:12] = pkt.mac_bytes(MAC_NEW)


def act_setttl(p, s, out, err):
    if p.is_ipv4():
        p.data[22] = 9


def act_local(p, s, out, err):
    s["cnt"] += p.np * 2


ACTIONS_S = None


def actions(silent):
    acts = [("cnt = cnt + 1;", act_count), ("total = total + PL;", act_sum), ("let loc = NP * 2; cnt = cnt + loc;", act_local),
            ("if PL >= 14 { ($1).src = \"%s\"; }" % MAC_NEW, act_setmac),
            ("if PL >= 34 && ($1).type == 2048 && ($2) != null && !is_error($2) { ($2).ttl = 9; }", act_setttl)]
    for tag in ("A", "B"):
        if silent:
            acts.append(("puts(\"%s \", NP, \" \", PL, \" \", WL, \" \", TSS, \" \", TSU);" % tag, act_print(tag)))
        acts.append(("eprintln(\"%s {} {}\", NP, cnt);" % tag, act_eprint(tag)))
    return acts


def gen_program(rng, silent):
    nf = rng.randint(1, 5)
    lines = ["let cnt = 0; let total = 0;"]
    model = []
    if silent and rng.random() < 0.5:
        lines.append("puts(\"prelude\");")
        model.append(("prelude-print",))
    acts = actions(silent)
    for i in range(nf):
        psrc, pfn = rng.choice(PATTERNS)
        k = rng.random()
        if k < 0.45:
            lines.append("@ %s" % psrc)
            model.append(("select", pfn))
        elif k < 0.55:
            a = rng.sample(acts, rng.randint(1, 2))
            lines.append("@ { %s }" % " ".join(x[0] for x in a))
            model.append(("action", lambda p, s: True, [x[1] for x in a]))
        else:
            a = rng.sample(acts, rng.randint(1, 3))
            lines.append("@ %s { %s }" % (psrc, " ".join(x[0] for x in a)))
            model.append(("action", pfn, [x[1] for x in a]))
        if rng.random() < 0.2:
            lines.append("cnt = cnt + 0;")    # ordinary statements between filters run once, in the prelude
    has_end = rng.random() < 0.6
    if has_end:
        if silent:
            lines.append("@ end { puts(\"END \", NP, \" \", cnt, \" \", total, \" \", PL == null); }")
        else:
            lines.append("@ end { eprintln(\"END {} {} {}\", NP, cnt, total); }")
    if rng.random() < 0.3:
        # the program text ends in an expression statement with a value (nothing echoes it in filter mode, whichever way
        # the text is handed to the interpreter)
        lines.append(rng.choice(["cnt + 41;", "\"tail\"", "total * 2 + 7"]))
    return "\n".join(lines) + "\n", model, has_end


def gen_stream(rng, long=False):
    n = rng.choice([0, 1, 2, 3, 5, 8, 20, 40])
    if long:
        # more packets than the VM has stack slots or frames: per-packet state must not accumulate
        n = rng.choice([4200, 5000, 9000])
    recs = []
    for k in range(n):
        if rng.random() < 0.7:
            fr, _ = pkt.rand_frame(rng, well_formed=True)
        else:
            fr = pkt.rand_bytes(rng, rng.choice([0, 5, 13, 14, 33, 60]))
        if rng.random() < 0.3:
            fr = fr[:60].ljust(60, b"\0")
        wire = len(fr) + rng.choice([0, 0, 10, 1000])
        recs.append((rng.getrandbits(31), rng.randrange(1000000), fr, None, wire))
    if not long and rng.random() < 0.08:
        # frames above 64 KiB (a stream with a large snaplen), content without any period
        for k in range(rng.randint(1, 2)):
            sz = rng.choice([65536, 65537, 70000, 131073])
            body = bytes((j * j + 7 * j + k) % 251 for j in range(sz))
            recs.insert(rng.randint(0, len(recs)), (rng.getrandbits(31), rng.randrange(1000000), body, None, None))
    if not long and rng.random() < 0.15:
        # frames larger than the stdout buffer with line-feed bytes at odd places
        for k in range(rng.randint(1, 4)):
            sz = rng.choice([1100, 1400, 3000, 9000])
            body = bytearray((j * 13 + k) % 240 + 11 for j in range(sz))
            for _ in range(rng.randint(1, 3)):
                body[rng.choice([0, 5, 20, 34, sz // 2, sz - 1030, sz - 1])] = 10
            fr, _ = pkt.rand_frame(rng, well_formed=True)
            recs.insert(rng.randint(0, len(recs)), (10 if rng.random() < 0.3 else rng.getrandbits(31), rng.randrange(1000000), fr[:34] + bytes(body), None, None))
    maxcap = max([len(r[2]) for r in recs] + [0])
    hdr = dict(magic=rng.choice([pkt.MAGIC_US, pkt.MAGIC_NS]), major=rng.choice([2, 2, 7]), minor=rng.choice([4, 4, 0]),
               thiszone=rng.choice([0, 0, 7200, -3600]), sigfigs=rng.choice([0, 0, 6]), snaplen=(rng.choice([max(maxcap, 1), 65535, 262144]) if maxcap <= 65535 else rng.choice([maxcap, 262144, 1 << 24]) if maxcap <= 262144 else maxcap),
               linktype=rng.choice([1, 1, 1, 113, 0]))
    return recs, hdr


def simulate(model, has_end, recs, silent):
    out, err, outrecs = [], [], []
    state = {"cnt": 0, "total": 0}
    for m in model:
        if m[0] == "prelude-print":
            out.append("prelude\n")
    n = 0
    for k, r in enumerate(recs):
        n += 1
        p = Pkt(k + 1, r[0], r[1], r[2], r[4] if r[4] is not None else len(r[2]))
        for m in model:
            if m[0] == "select":
                if m[1](p, state):
                    outrecs.append((p.sec, p.usec, p.pl, p.wire, bytes(p.data)))
            elif m[0] == "action":
                if m[1](p, state):
                    for a in m[2]:
                        a(p, state, out, err)
    if has_end:
        if silent:
            out.append("END %d %d %d true\n" % (n, state["cnt"], state["total"]))
        else:
            err.append("END %d %d %d\n" % (n, state["cnt"], state["total"]))
    return "".join(out), "".join(err), outrecs


def run(chk):
    rng = chk.rng
    quick = chk.tier == "quick"
    chk.rule = ("random filter programs (1-5 filters over NP/PL/WL/TSS/TSU, globals and L2 fields; actions updating globals and locals, "
                "printing, assigning L2/L3 fields; action-less selecting filters; optional end filter) x random pcap streams (0-40 "
                "packets, both magics, random snaplen/linktype/version/zone/sigfigs) x {-s, no -s} x {dev, release}; distinct = "
                "distinct (filter kinds, -s?, end?, packets, outcome)")
    chk.assumptions = ["programs never raise a runtime error inside a filter (that ends the stream loop by design) and print to stdout only "
                       "with -s (without -s stdout is the pcap stream)"]
    chk.floor = 300
    chk.rule += '; plus streams of 4200-9000 packets with actions that declare locals, frames larger than the stdout buffer with line-feed bytes, non-boolean patterns, assignments to the record fields of $0 between selecting filters; every third program handed over with -c instead of a file, program texts ending in an expression statement with a value'
    work = core.scratch_dir()
    try:
        n = 500 if quick else 15000
        path = os.path.join(work, "f.p2")
        inp = os.path.join(work, "in.pcap")
        for t in range(n):
            silent = rng.random() < 0.5
            src, model, has_end = gen_program(rng, silent)
            long = (t % 100 == 7)
            if long:
                # make sure actions with locals run for every packet
                src = src.replace("let cnt = 0; let total = 0;", "let cnt = 0; let total = 0; let lsum = 0;", 1)
                src += "@ true { let l1 = NP; let l2 = PL; let l3 = l1 + l2; lsum = lsum + l3 - l3; }\n@ NP > 0 { let m1 = 1; let m2 = [m1]; }\n"
            recs, hdr = gen_stream(rng, long)
            data = pkt.pcap_file(recs, **hdr)
            with open(path, "w") as f:
                f.write(src)
            with open(inp, "wb") as f:
                f.write(data)
            as_cmd = (t % 3 == 1)     # the same text handed over with -c
            with open(inp, "rb") as fi:
                rr = core.run_binary((["-s"] if silent else []) + (["-c", src] if as_cmd else [path]), stdin_file=fi, release=(t % 2 == 1), timeout=60)
            if rr["timeout"]:
                chk.inconc("timeout")
                continue
            if core.crashed(rr):
                chk.violation("filter-crash|" + core.msg_class(rr["err"].decode("utf-8", "replace")[-60:]), "filter program crashes the interpreter",
                              {"src": src, "stderr": rr["err"].decode("utf-8", "replace")[-400:]})
                continue
            exp_out, exp_err, exp_recs = simulate(model, has_end, recs, silent)
            kinds = tuple(sorted(set(m[0] for m in model)))
            chk.observed((kinds, silent, has_end, min(len(recs), 9), len(exp_recs) > 0, as_cmd))
            if t % 97 == 0:
                chk.sample({"program": src, "packets_in": len(recs), "-s": silent, "records_expected_out": len(exp_recs),
                            "stderr": rr["err"].decode("utf-8", "replace")[:80]})
            err = rr["err"].decode("utf-8", "replace")
            bad = None
            sig = None
            if err != exp_err:
                bad = "stderr is %r, expected %r" % (err[:160], exp_err[:160])
                sig = "stderr"
            elif silent:
                if rr["out"].decode("utf-8", "replace") != exp_out:
                    bad = "stdout (with -s) is %r, expected %r" % (rr["out"][:160], exp_out[:160])
                    sig = "stdout-text"
            else:
                h2, recs2, rest = pkt.parse_pcap(rr["out"])
                if h2 is None:
                    bad = "no pcap global header on stdout (%d bytes)" % len(rr["out"])
                    sig = "no-header"
                elif recs2 != exp_recs or rest:
                    k = next((i for i in range(min(len(recs2), len(exp_recs))) if recs2[i] != exp_recs[i]), min(len(recs2), len(exp_recs)))
                    bad = "output holds %d records (+%d stray bytes), expected %d; first difference at record %d" % (len(recs2), len(rest), len(exp_recs), k)
                    sig = "records"
                elif h2 != hdr:
                    diff = [k for k in hdr if hdr[k] != h2[k]]
                    bad = "the output global header differs from the input's in %s (in %s, out %s)" % (diff, {k: hdr[k] for k in diff}, {k: h2[k] for k in diff})
                    sig = "global-header|" + "+".join(diff)
            if bad:
                chk.violation("filter|" + sig, bad, {"src": src, "n_packets": len(recs), "header": hdr, "silent": silent,
                                                   "stderr": err[-300:], "input_hex": data.hex()[:2000]})
        # ---- assignments to the record fields of $0 between selecting filters: each selection writes the packet as it is then
        TEMPL = [
            ("@ true\n@ { ($0).usec = 5; }\n@ true\n",
             lambda k, r: [r, (r[0], 5, r[2], r[3], r[4])]),
            ("@ true\n@ NP % 2 == 0 { ($0).sec = 7; ($0).usec = NP; }\n@ true\n@ { ($0).wirelen = 77; }\n@ true\n",
             lambda k, r: [r, ((7, k) if k % 2 == 0 else (r[0], r[1])) + (r[2], r[3], r[4]), ((7, k) if k % 2 == 0 else (r[0], r[1])) + (r[2], 77, r[4])]),
            ("@ { ($0).sec = 1; }\n@ true\n@ { ($0).sec = 2; }\n@ true\n@ { ($0).sec = 3; }\n@ true\n",
             lambda k, r: [(1,) + r[1:], (2,) + r[1:], (3,) + r[1:]]),
            # a pattern that changes the packet while it is evaluated: the filter that selects it writes the changed packet
            ("fn retag(e) { (e).src = \"02:00:00:00:00:01\"; return true; }\n@ true\n@ PL >= 14 && retag($1)\n",
             lambda k, r: [r] + ([(r[0], r[1], r[2], r[3], r[4][:6] + pkt.mac_bytes(MAC_NEW) + r[4][12:])] if r[2] >= 14 else [])),
            ("fn stamp(p, v) { (p).usec = v; return true; }\n@ stamp($0, 1)\n@ stamp($0, 2)\n@ NP > 0\n",
             lambda k, r: [(r[0], 1) + r[2:], (r[0], 2) + r[2:], (r[0], 2) + r[2:]]),
            ("@ true\n@ PL >= 14 { ($0).usec = 9; ($1).src = \"02:00:00:00:00:01\"; }\n@ true\n",
             lambda k, r: [r, (r[0], 9, r[2], r[3], (r[4][:6] + pkt.mac_bytes(MAC_NEW) + r[4][12:])) if r[2] >= 14 else r]),
        ]
        for ti, (prog, model_fn) in enumerate(TEMPL * (2 if quick else 40)):
            recs, hdr = gen_stream(rng)
            data = pkt.pcap_file(recs, **hdr)
            with open(path, "w") as f:
                f.write(prog)
            rr = core.run_binary([path], stdin_data=data, release=(ti % 2 == 1), timeout=60)
            if rr["timeout"]:
                chk.inconc("timeout")
                continue
            chk.observed(("record-fields", ti % len(TEMPL), min(len(recs), 9)))
            if core.crashed(rr):
                chk.violation("filter-crash|record-fields", "filter program crashes the interpreter", {"src": prog, "stderr": rr["err"].decode("utf-8", "replace")[-300:]})
                continue
            want = []
            for k, r in enumerate(recs):
                base = (r[0], r[1], len(r[2]), r[4] if r[4] is not None else len(r[2]), r[2])
                want += model_fn(k + 1, base)
            h2, recs2, rest = pkt.parse_pcap(rr["out"])
            if h2 is None or recs2 != want or rest:
                k_ = next((i for i in range(min(len(recs2), len(want))) if recs2[i] != want[i]), min(len(recs2), len(want)))
                chk.violation("filter|record-fields|%d" % (ti % len(TEMPL)), "program %r on %d packets: output holds %d records, expected %d; first difference at output record %d (stderr %r)" % (
                    prog, len(recs), len(recs2), len(want), k_, rr["err"][-120:]), {"src": prog, "n_packets": len(recs)})
    finally:
        shutil.rmtree(work, ignore_errors=True)
