"""C06 - truthiness and short-circuit logic follow the documented table.

Finite space, enumerated completely: 40 representative values in every
truthiness position (!v, if, while, filter pattern, && and || against every
right operand with an evaluation probe)."""
import os
import struct

from . import core
from .core import Case
from .opmodel import falsey
from .val import (Arr, Builtin, Byte, Char, Closure, ErrObj, Map, Opaque, canon, canon_dump, kind, lit, show)
import math

# (source text, model value)
REPS = [
    ("false", False), ("true", True), ("0", 0), ("1", 1), ("(-1)", -1),
    ("0.0", 0.0), ("(-0.0)", -0.0), ("(1e999 - 1e999)", math.nan), ("1.5", 1.5), ("5.0e-324", 5e-324), ("(-1.0e-20)", -1e-20),
    ("1e999", math.inf), ("(1.0 - 0.9999999999999999)", 1.0 - 0.9999999999999999), ("9223372036854775807", (1 << 63) - 1),
    ("(-9223372036854775807 - 1)", -(1 << 63)), ("char(1)", Char(1)), ("byte(255)", Byte(255)), ('" "', " "), ("[[]]", Arr([Arr([])])),
    ("[null]", Arr([None])), ("map {null: null}", Map([(None, None)])), ("false || 0", 0),
    ("null", None), ("char(0)", Char(0)), ("'a'", Char("a")), ("byte(0)", Byte(0)), ("b'a'", Byte(97)),
    ('""', ""), ('"a"', "a"), ('"é"', "é"), ("[]", Arr([])), ("[0]", Arr([0])),
    ("map {}", Map([])), ("map {0: 0}", Map([(0, 0)])), ("fn() { 0 }", Closure()), ("len", Builtin("len")),
    ("decode_utf8([byte(255)])", ErrObj()), ("stdin", Opaque("file")),
]


def one_packet_pcap():
    gh = struct.pack("<IHHiIII", 0xA1B2C3D4, 2, 4, 0, 0, 65535, 1)
    data = bytes(range(60))
    return gh + struct.pack("<IIII", 1, 2, len(data), len(data)) + data


def run(chk):
    chk.rule = ("40 representative values (every kind, falsey and truthy member) x positions {!v, if v, while v, filter "
                "pattern, v && w, v || w for all 40 w}; distinct = distinct (position, kind of v, falsey?, kind of w)")
    chk.exhaustive = True
    chk.floor = 1000
    chk.rule += '; plus filter programs end to end: selection by action-less filters (3 packets), filters with an action never write, a non-matching filter leaves the later filters alone; every position again after 45-1000 filler statements (top level and function bodies)'
    chk.assumptions = ["the 40 representatives stand for their kinds (one falsey and one truthy member per kind where both exist)"]
    PRE = "let __t = []; fn r(x) { push(__t, 1); x }\nlet __o = [];\n"
    cases = []
    meta = {}

    def add(cid, src, m):
        cases.append(Case(cid, PRE + src, {"globals": "__o,__t", "steps": 20000}))
        meta[cid] = (src, m)

    for i, (ts, tv) in enumerate(REPS):
        # negation of a logical expression / conditional whose last operation is a comparison (the left operand decides)
        add("nand%d" % i, "push(__o, !(%s && 1 == 2));" % ts, ("!&&", tv, None))
        add("nor%d" % i, "push(__o, !(%s || 1 != 2));" % ts, ("!||", tv, None))
        add("nif%d" % i, "push(__o, !(if %s { 1 == 1 } else { 2 == 3 }));" % ts, ("!if", tv, None))
        add("nnand%d" % i, "push(__o, !!(%s && 1 != 2));" % ts, ("!!&&", tv, None))
        add("ifnand%d" % i, "push(__o, if !(%s && 3 == 3) { 1 } else { 2 });" % ts, ("if!&&", tv, None))
    for i, (ts, tv) in enumerate(REPS):
        add("not%d" % i, "push(__o, !%s);" % ts, ("!", tv, None))
        add("if%d" % i, "push(__o, if %s { 1 } else { 2 });" % ts, ("if", tv, None))
        add("wh%d" % i, "let n = 0; while %s { n = n + 1; break; } push(__o, n);" % ts, ("while", tv, None))
        for j, (ws, wv) in enumerate(REPS):
            add("and%d_%d" % (i, j), "push(__o, %s && r(%s));" % (ts, ws), ("&&", tv, wv))
            add("or%d_%d" % (i, j), "push(__o, %s || r(%s));" % (ts, ws), ("||", tv, wv))
    # the same positions far from the start of the code: after 45-1000 filler statements at the top level and inside a
    # function body (jump targets beyond every small operand width)
    def placed(src, k, where):
        pad = " ".join("let pad%d = %d;" % (q, q) for q in range(k))
        return ("%s %s" % (pad, src)) if where == "top" else ("fn host() { %s %s } host();" % (pad, src))
    for i, (ts, tv) in enumerate(REPS):
        for pi, (k, where) in enumerate(((45, "top"), (60, "function"), (100, "top"), (300, "function"), (1000, "top"))):
            if where == "function" and k > 250:
                k = 250     # a function holds at most 255 locals
            add("pnot%d_%d" % (i, pi), placed("push(__o, !%s);" % ts, k, where), ("!", tv, None))
            add("pif%d_%d" % (i, pi), placed("push(__o, if %s { 1 } else { 2 });" % ts, k, where), ("if", tv, None))
            add("pwh%d_%d" % (i, pi), placed("let n = 0; while %s { n = n + 1; break; } push(__o, n);" % ts, k, where), ("while", tv, None))
            for j in (0, 7, 19, 33):
                ws, wv = REPS[(i + j) % len(REPS)]
                add("pand%d_%d_%d" % (i, pi, j), placed("push(__o, %s && r(%s));" % (ts, ws), k, where), ("&&", tv, wv))
                add("por%d_%d_%d" % (i, pi, j), placed("push(__o, %s || r(%s));" % (ts, ws), k, where), ("||", tv, wv))
    res = core.run_cases(cases)
    for cid, (src, (pos, tv, wv)) in meta.items():
        r = res.get(cid)
        if r is None or r.get("outcome") != "ok":
            if r is not None and r.get("outcome") == "panic":
                chk.violation("panic|" + core.panic_site_sig(r["panic"]["loc"], r["panic"]["msg"]), "panic in %s" % src, {"src": src, "r": r})
            else:
                chk.violation("pos=%s|kind=%s|outcome=%s" % (pos, kind(tv), (r or {}).get("outcome")),
                              "%s ended with %s" % (src, (r or {}).get("outcome")), {"src": src, "r": r})
            continue
        g = r.get("globals", {})
        o = canon_dump(g.get("__o"))
        t = canon_dump(g.get("__t"))
        f = falsey(tv)
        if pos == "!&&":
            # v && (1 == 2): v when v is falsey, else false; its negation is true either way ... unless v is falsey: !v = true
            exp_o, exp_t = ("a", (("bool", True),)), ("a", ())
        elif pos == "!||":
            # v || (1 != 2): v when truthy (negation false), else true (negation false)
            exp_o, exp_t = ("a", (("bool", False),)), ("a", ())
        elif pos == "!if":
            exp_o, exp_t = ("a", (("bool", True if f else False),)), ("a", ())
        elif pos == "!!&&":
            exp_o, exp_t = ("a", (("bool", not f),)), ("a", ())
        elif pos == "if!&&":
            exp_o, exp_t = ("a", (("i", 1 if f else 2),)), ("a", ())
        elif pos == "!":
            exp_o, exp_t = ("a", (("bool", f),)), ("a", ())
        elif pos == "if":
            exp_o, exp_t = ("a", (("i", 2 if f else 1),)), ("a", ())
        elif pos == "while":
            exp_o, exp_t = ("a", (("i", 0 if f else 1),)), ("a", ())
        elif pos == "&&":
            exp_o = ("a", (canon(tv) if f else canon(wv),))
            exp_t = ("a", ()) if f else ("a", (("i", 1),))
        else:
            exp_o = ("a", (canon(wv) if f else canon(tv),))
            exp_t = ("a", (("i", 1),)) if f else ("a", ())
        chk.observed((pos, kind(tv), f, kind(wv) if wv is not None or pos in ("&&", "||") else ""))
        if len(chk.samples) < 6 and pos in ("&&", "||") and hash(cid) % 97 == 0:
            chk.sample({"src": src, "observed": show(o), "right_operand_evaluations": len(t[1])})
        if o != exp_o or t != exp_t:
            chk.violation("pos=%s|kind=%s|falsey=%s|value_ok=%s|evaluated_ok=%s" % (pos, kind(tv), f, o == exp_o, t == exp_t),
                          "%s: expected %s with %d evaluation(s) of the right operand, observed %s with %d" % (
                              src, show(exp_o), len(exp_t[1]), show(o), len(t[1])),
                          {"src": src, "expected": [exp_o, exp_t], "observed": r})
    # filter pattern position, end to end
    work = core.scratch_dir()
    try:
        pcap = os.path.join(work, "one.pcap")
        with open(pcap, "wb") as fh:
            fh.write(one_packet_pcap())
        for i, (ts, tv) in enumerate(REPS):
            if ts == "stdin":
                continue
            script = os.path.join(work, "f.p2")
            with open(script, "w", encoding="utf-8") as fh:
                fh.write("@ %s { puts(\"ACT\"); }\n" % ts)
            for rel in (False, True):
                with open(pcap, "rb") as fi:
                    rr = core.run_binary(["-s", script], stdin_file=fi, release=rel, timeout=20)
                if rr["timeout"]:
                    chk.inconc("timeout in filter run")
                    continue
                ran = b"ACT" in rr["out"]
                chk.observed(("filter", kind(tv), falsey(tv), rel))
                if core.crashed(rr):
                    chk.violation("filter-pattern-crash|kind=%s" % kind(tv), "filter with pattern %s crashes" % ts,
                                  {"pattern": ts, "stderr": rr["err"].decode("utf-8", "replace")[-300:]})
                elif ran == falsey(tv):
                    chk.violation("pos=filter|kind=%s|falsey=%s" % (kind(tv), falsey(tv)),
                                  "filter pattern %s: action %s although the value is %s" % (
                                      ts, "ran" if ran else "did not run", "falsey" if falsey(tv) else "truthy"),
                                  {"pattern": ts, "stdout": rr["out"].decode("utf-8", "replace")[-200:],
                                   "stderr": rr["err"].decode("utf-8", "replace")[-300:]})
        # filter patterns without an action select the packet (it is written to the output) exactly when the value is
        # truthy; a filter with an action never writes; a pattern that does not match leaves the later filters alone
        from . import pkt
        three = os.path.join(work, "three.pcap")
        with open(three, "wb") as fh:
            fh.write(pkt.pcap_file([(1, 2, bytes(range(60))), (2, 3, bytes(range(61))), (3, 4, bytes(range(62)))]))
        for i, (ts, tv) in enumerate(REPS):
            if ts == "stdin":
                continue
            progs = [("select", "@ %s\n" % ts, 0 if falsey(tv) else 3, None),
                     ("action-never-writes", "@ %s { let q = 1; }\n" % ts, 0, None),
                     ("later-filters-run", "@ %s { let q = 1; }\n@ true { eprintln(\"second {}\", NP); }\n" % ts, 0, b"second 1\nsecond 2\nsecond 3\n")]
            for name, text, nrec, want_err in progs:
                script = os.path.join(work, "g.p2")
                with open(script, "w", encoding="utf-8") as fh:
                    fh.write(text)
                rel = (i % 2 == 1)
                with open(three, "rb") as fi:
                    rr = core.run_binary([script], stdin_file=fi, release=rel, timeout=20)
                if rr["timeout"]:
                    chk.inconc("timeout in filter run")
                    continue
                chk.observed(("filter-" + name, kind(tv), falsey(tv)))
                if core.crashed(rr):
                    chk.violation("filter-pattern-crash|kind=%s" % kind(tv), "filter with pattern %s crashes" % ts,
                                  {"program": text, "stderr": rr["err"].decode("utf-8", "replace")[-300:]})
                    continue
                hdr, recs, rest = pkt.parse_pcap(rr["out"])
                got = len(recs) if hdr is not None else None
                err = rr["err"].decode("utf-8", "replace")
                bad = None
                if got != nrec:
                    bad = "%d packet(s) written, expected %d of 3 (the pattern value is %s)" % (got if got is not None else -1, nrec, "falsey" if falsey(tv) else "truthy")
                elif want_err is not None and want_err.decode() not in err:
                    bad = "the filter after it did not run for every packet (stderr %r)" % err[:160]
                if bad:
                    chk.violation("pos=filter-%s|kind=%s|falsey=%s" % (name, kind(tv), falsey(tv)),
                                  "filter program %r: %s" % (text.strip(), bad), {"program": text, "stderr": err[-300:], "stdout_bytes": len(rr["out"])})
        # layer objects, layer error objects (truncated headers) and null (no such layer) as patterns
        full = pkt.eth(b"\x02" * 6, b"\x04" * 6, pkt.ET_IPV4, pkt.ipv4(b"\x0a\0\0\1", b"\x0a\0\0\2", 6, pkt.tcp(1, 2, b"payload")))
        frames = [full, full[:10], full[:20], full[:40], full[:14], full[:34]]
        lcap = os.path.join(work, "layers.pcap")
        with open(lcap, "wb") as fh:
            fh.write(pkt.pcap_file([(k, 0, fr) for k, fr in enumerate(frames)]))
        for n in (1, 2, 3, 4):
            want = []
            for k, fr in enumerate(frames):
                layers = pkt.decode(fr)
                if n - 1 < len(layers):
                    truthy = True            # a layer object or the error object of a layer that does not fit
                else:
                    truthy = bool(layers) and layers[-1][0] in ("error", "malformed")     # below a broken layer: still an error object
                want.append(truthy)
            for prog_kind, text in (("select", "@ $%d\n" % n), ("select-and", "@ PL >= 0 && $%d\n" % n), ("select-or", "@ $%d || false\n" % n)):
                script = os.path.join(work, "l.p2")
                with open(script, "w") as fh:
                    fh.write(text)
                with open(lcap, "rb") as fi:
                    rr = core.run_binary([script], stdin_file=fi, release=(n % 2 == 0), timeout=20)
                if rr["timeout"]:
                    chk.inconc("timeout in filter run")
                    continue
                chk.observed(("filter-layer-pattern", n, prog_kind))
                if core.crashed(rr):
                    chk.violation("filter-pattern-crash|layer", "filter with pattern $%d crashes" % n, {"stderr": rr["err"].decode("utf-8", "replace")[-300:]})
                    continue
                hdr, recs, rest = pkt.parse_pcap(rr["out"])
                got = sorted(r_[0] for r_ in recs) if hdr else None
                exp = [k for k, t_ in enumerate(want) if t_]
                # control: the same values judged by `if` in an action
                with open(script, "w") as fh:
                    fh.write("@ true { if $%d { eprintln(\"T {}\", NP - 1); } }\n" % n)
                with open(lcap, "rb") as fi:
                    rc_ = core.run_binary(["-s", script], stdin_file=fi, release=(n % 2 == 0), timeout=20)
                ctl = sorted(int(x.split()[1]) for x in rc_["err"].decode("utf-8", "replace").splitlines() if x.startswith("T "))
                if got != ctl:
                    chk.violation("pos=filter-select|kind=layer-or-layer-error|n=%d" % n, "pattern %r selects packets %s, while `if $%d` in an action is taken for packets %s (frames: full, cut at 10, 20, 40, 14, 34 bytes)" % (
                        text.strip(), got, n, ctl), {"program": text})
                elif got != exp and n <= 3:
                    chk.violation("pos=filter-select|kind=layer-or-layer-error|model|n=%d" % n, "pattern %r selects packets %s, the layer model says %s" % (text.strip(), got, exp), {"program": text})
    finally:
        import shutil
        shutil.rmtree(work, ignore_errors=True)
