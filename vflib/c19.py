"""C19 - pcap file reading and writing preserve records in order.

Oracle: Python pcap reader/writer (pkt.py). Histories of pcap_read_next /
pcap_read_all(f) / pcap_read_all(f, n) on one handle must return successive
slices of the record list, then null / an empty array; pcap_write of the
packets to a new file must reproduce the records; a file truncated at any
byte offset or corrupted after k complete records must yield exactly those k
records and then null or an error object - never a crash."""
import os
import shutil
import struct

from . import core, pkt
from .core import Case
from .val import canon_dump, lit, show

HELPERS = """fn d(p) { if p == null { return null; }; if is_error(p) { return "E"; }; let r = [p.sec, p.usec, p.caplen, p.wirelen, p.payload]; r }
fn da(a) { if a == null { return null; }; if is_error(a) { return "E"; }; let out = []; let i = 0; while i < len(a) { push(out, d(a[i])); i = i + 1; } out }
"""


def rec_canon(r):
    sec, usec, data = r[0], r[1], r[2]
    cap = r[3] if len(r) > 3 and r[3] is not None else len(data)
    wire = r[4] if len(r) > 4 and r[4] is not None else len(data)
    return ("a", (("i", sec), ("i", usec), ("i", cap), ("i", wire), ("a", tuple(("b", x) for x in data))))


def gen_records(rng, big=False, many=False):
    n = rng.choice([0, 1, 2, 3, 5, 8, 13, 50 if rng.random() < 0.1 else 4])
    if many:
        # enough small records for record headers to straddle the 8 KiB read-buffer boundaries several times
        n = rng.choice([150, 300, 700])
    recs = []
    for k in range(n):
        sz = rng.choice([0, 1, 14, 60, 64, 70, rng.randint(0, 70)])
        if big and rng.random() < 0.2:
            sz = rng.choice([4095, 4096, 4097, 8191, 8192, 8193, 65535, 65536, 70000])
        data = pkt.rand_bytes(rng, sz) if sz < 200 else bytes((i * 31 + k) & 0xFF for i in range(sz))
        # the wire length is whatever the file says: usually >= the captured length, but 0 or less than it occur in the wild
        wire = rng.choice([None, None, sz + rng.randint(0, 2000), 0, max(0, sz - rng.randint(1, 10)), (1 << 32) - 1])
        recs.append((rng.getrandbits(32), rng.getrandbits(32) if rng.random() < 0.5 else rng.randrange(1000000), data, None, wire))
    if rng.random() < 0.12:
        # records that are all zero (time stamp 0, no data), singly or in runs, at the end or in the middle
        z = [(0, 0, b"", None, 0)] * rng.randint(1, 4)
        pos = rng.choice([len(recs), len(recs), rng.randint(0, len(recs))])
        recs[pos:pos] = z
    return recs


def gen_ops(rng):
    ops = []
    for _ in range(rng.randint(1, 10)):
        k = rng.random()
        if k < 0.55:
            ops.append(("next",))
        elif k < 0.75:
            ops.append(("all",))
        else:
            # counts far beyond the file (the answer is "what remains") at and around every power of two a narrower
            # integer type would wrap at
            ops.append(("alln", rng.choice([0, 1, 2, 3, 5, 100, 255, 256, 257, 65535, 65536, 65537, 65536 + rng.randint(0, 9), 1 << 31, (1 << 32) + rng.randint(0, 5),
                                            (1 << 32) - 1, (1 << 63) - 1, (1 << 16) * rng.randint(1, 40000) + rng.randint(0, 4)])))
    return ops


def expected(recs_canon, ops):
    """-> list of expected observations for a complete, well-formed file"""
    c = 0
    out = []
    for op in ops:
        if op[0] == "next":
            if c < len(recs_canon):
                out.append(recs_canon[c])
                c += 1
            else:
                out.append(("null",))
        elif op[0] == "all":
            out.append(("a", tuple(recs_canon[c:])))
            c = len(recs_canon)
        else:
            n = op[1]
            out.append(("a", tuple(recs_canon[c:c + n])))
            c = min(len(recs_canon), c + n)
    return out


def ops_src(ops):
    lines = []
    for op in ops:
        if op[0] == "next":
            lines.append("push(__o, d(pcap_read_next(f)));")
        elif op[0] == "all":
            lines.append("push(__o, da(pcap_read_all(f)));")
        else:
            lines.append("push(__o, da(pcap_read_all(f, %d)));" % op[1])
    return lines


def run(chk):
    rng = chk.rng
    quick = chk.tier == "quick"
    chk.rule = ("random well-formed legacy pcap files (0-50 records, sizes 0..70 and around 4096/8192/65535, both magics, snaplen in "
                "{max caplen, 64.., 65535, 2^32-1}, random versions/linktype/zone) x random interleavings of read_next / read_all / "
                "read_all(n); write-back with pcap_write and re-read; every truncation offset of small files; header corruptions "
                "(caplen > snaplen, caplen beyond EOF, bad magic, short global header); distinct = distinct (file class, operation "
                "kinds, records, outcome)")
    chk.assumptions = ["after the first null / error object from a truncated or corrupted file further reads are only required not to crash",
                       "pcap_read_all on a corrupted file may return the complete records read so far or an error object",
                       "a negative count for pcap_read_all is not generated"]
    chk.floor = 1500
    chk.rule += '; plus a re-read of every written file by the interpreter itself, captures of 150-700 small records, the same truncations as a stream on stdin (pcap_read_next, pcap_read_all, filter mode), complete streams copied stdin -> stdout with records larger than the stdout buffer holding line-feed bytes, wire lengths below the captured length'
    work = core.scratch_dir()
    try:
        cases = []
        meta = {}
        reread = []
        n_files = 400 if quick else 12000
        for i in range(n_files):
            recs = gen_records(rng, big=(i % 7 == 0), many=(i % 40 == 3))
            maxcap = max([len(r[2]) for r in recs] + [0])
            snap = rng.choice([maxcap, max(maxcap, 64), max(maxcap, 65535), (1 << 32) - 1])
            hdr = dict(magic=rng.choice([pkt.MAGIC_US, pkt.MAGIC_NS]), major=rng.choice([2, 2, rng.getrandbits(16)]), minor=rng.choice([4, 4, rng.getrandbits(16)]),
                       thiszone=rng.choice([0, 0, -3600, rng.randint(-(1 << 31), (1 << 31) - 1)]), sigfigs=rng.choice([0, rng.getrandbits(32)]),
                       snaplen=snap, linktype=rng.choice([1, 1, 0, 101, rng.getrandbits(32)]))
            data = pkt.pcap_file(recs, **hdr)
            inp = os.path.join(work, "w%d.pcap" % i)
            with open(inp, "wb") as f:
                f.write(data)
            ops = gen_ops(rng)
            outp = os.path.join(work, "w%d.out" % i)
            lines = [HELPERS, "let __o = []; let f = pcap_open(%s);" % lit(inp)] + ops_src(ops)
            # write everything back (fresh handle) and re-read it
            lines += ["let g = pcap_open(%s); let all = pcap_read_all(g); let o = pcap_open(%s, \"w\");" % (lit(inp), lit(outp)),
                      # every other packet has its link layer looked at (nothing assigned) before it is written
                      "let i = 0; while i < len(all) { let q = all[i]; if i % 2 == 1 { let t = q.eth; if !is_error(t) { t.type; t.src; } } "
                      "push(__o, pcap_write(o, q)); i = i + 1; }"]
            cid = "w%d" % i
            cases.append(Case(cid, "\n".join(lines), {"globals": "__o", "steps": 3000000}))
            meta[cid] = ("well-formed", recs, ops, hdr, outp, data)
        # truncations: every byte offset of small files
        n_tr = 12 if quick else 250
        for i in range(n_tr):
            recs = gen_records(rng)[:4]
            data = pkt.pcap_file(recs, magic=rng.choice([pkt.MAGIC_US, pkt.MAGIC_NS]))
            cuts = list(range(len(data)))
            for c in cuts:
                inp = os.path.join(work, "t%d-%d.pcap" % (i, c))
                with open(inp, "wb") as f:
                    f.write(data[:c])
                nreads = len(recs) + 2
                mode = rng.choice(["next", "next", "all", "mixed"])
                if mode == "next":
                    ops = [("next",)] * nreads
                elif mode == "all":
                    ops = [("all",), ("next",)]
                else:
                    ops = gen_ops(rng)
                lines = [HELPERS, "let __o = []; let f = pcap_open(%s);" % lit(inp), "if is_error(f) { push(__o, \"OPEN-ERROR\"); } else {"] + ops_src(ops) + ["}"]
                cid = "t%d-%d" % (i, c)
                cases.append(Case(cid, "\n".join(lines), {"globals": "__o", "steps": 1000000}))
                meta[cid] = ("truncated", recs, ops, c, data)
        # corruptions
        n_co = 60 if quick else 1500
        for i in range(n_co):
            recs = gen_records(rng)[:5]
            if not recs:
                recs = [(1, 2, b"abc", None, None)]
            k = rng.randrange(len(recs))
            kind = rng.choice(["caplen>snaplen", "caplen-beyond-eof", "bad-magic", "short-header", "big-endian-magic"])
            snap = max(len(r[2]) for r in recs) + rng.choice([0, 10])
            data = bytearray(pkt.pcap_file(recs, snaplen=snap))
            if kind == "caplen>snaplen":
                pos = 24 + sum(16 + len(r[2]) for r in recs[:k])
                data[pos + 8:pos + 12] = struct.pack("<I", snap + rng.choice([1, 2, 1000]))
                good = k
            elif kind == "caplen-beyond-eof":
                pos = 24 + sum(16 + len(r[2]) for r in recs[:k])
                data[pos + 8:pos + 12] = struct.pack("<I", len(recs[k][2]) + rng.choice([1, 50]))
                data = data[:pos + 16 + len(recs[k][2])]
                # keep the caplen within snaplen so that the file is "truncated", not "oversized"
                data[16:20] = struct.pack("<I", 65535)
                good = k
            elif kind == "bad-magic":
                data[0:4] = rng.choice([b"\x00\x00\x00\x00", b"\x0a\x0d\x0d\x0a", b"\xd4\xc3\xb2\xa0", b"ABCD"])
                good = -1
            elif kind == "big-endian-magic":
                data[0:4] = b"\xa1\xb2\xc3\xd4"
                good = -1
            else:
                data = data[:rng.randrange(24)]
                good = -1
            inp = os.path.join(work, "c%d.pcap" % i)
            with open(inp, "wb") as f:
                f.write(bytes(data))
            ops = [("next",)] * (len(recs) + 2) if rng.random() < 0.7 else [("all",), ("next",)]
            lines = [HELPERS, "let __o = []; let f = pcap_open(%s);" % lit(inp), "if is_error(f) { push(__o, \"OPEN-ERROR\"); } else {"] + ops_src(ops) + ["}"]
            cid = "c%d" % i
            cases.append(Case(cid, "\n".join(lines), {"globals": "__o", "steps": 1000000}))
            meta[cid] = ("corrupted", recs, ops, (kind, good), bytes(data))
        res = core.run_cases(cases, timeout=600)
        for cid, m in meta.items():
            r = res.get(cid)
            if r is None:
                chk.inconc("missing result")
                continue
            oc = r.get("outcome")
            cls = m[0]
            if oc == "panic":
                chk.violation("panic|" + core.panic_site_sig(r["panic"]["loc"], r["panic"]["msg"]), "%s pcap file: reading panics: %s" % (cls, r["panic"]["msg"]),
                              {"file_hex": m[4].hex()[:4000] if cls != "well-formed" else None, "src": next(c.src for c in cases if c.id == cid)[-600:]})
                continue
            if oc in ("died", "hang"):
                chk.violation("death|%s" % cls, "%s pcap file: the interpreter %s" % (cls, oc), {"case": cid})
                continue
            if oc == "rt_error":
                chk.violation("raises|%s|%s" % (cls, core.msg_class(r["rt"]["msg"])[:40]), "%s pcap file: reading raises a runtime error: %s" % (cls, r["rt"]["msg"]),
                              {"src": next(c.src for c in cases if c.id == cid)[-600:]})
                continue
            if oc != "ok":
                chk.inconc("outcome %s" % oc)
                continue
            obs = list(canon_dump(r["globals"]["__o"])[1])
            if cls == "well-formed":
                _, recs, ops, hdr, outp, data = m
                rc = [rec_canon(x) for x in recs]
                exp = expected(rc, ops)
                got_ops = obs[:len(ops)]
                chk.observed((cls, tuple(o[0] for o in ops[:4]), min(len(recs), 6), hdr["magic"] == pkt.MAGIC_NS))
                if len(chk.samples) < 6 and len(recs) > 1:
                    chk.sample({"records": len(recs), "ops": [list(o) for o in ops], "results": [core.short(show(x), 60) for x in got_ops]})
                if got_ops != exp:
                    k = next((j for j in range(min(len(got_ops), len(exp))) if got_ops[j] != exp[j]), min(len(got_ops), len(exp)))
                    chk.violation("order|%s" % ops[k][0] if k < len(ops) else "order|end",
                                  "operation #%d (%s) on a %d-record file returned %s, expected %s" % (
                                      k, ops[k] if k < len(ops) else "-", len(recs), core.short(show(got_ops[k]), 200) if k < len(got_ops) else "<nothing>",
                                      core.short(show(exp[k]), 200) if k < len(exp) else "<nothing>"), {"ops": ops, "n_records": len(recs), "header": hdr})
                    continue
                # write-back
                wrote = obs[len(ops):]
                try:
                    h2, recs2, rest = pkt.parse_pcap(open(outp, "rb").read())
                except OSError:
                    h2, recs2, rest = None, [], b""
                want = [(x[0], x[1], len(x[2]), x[4] if x[4] is not None else len(x[2]), x[2]) for x in recs]
                if recs2 != want or rest:
                    chk.violation("write-back", "writing the %d packets to a new file and reading it back gives %d records (%d stray bytes)" % (len(recs), len(recs2), len(rest)),
                                  {"n_records": len(recs)})
                elif wrote != [("i", 16 + len(x[2])) for x in recs]:
                    chk.violation("write-back|returned-length", "pcap_write returned %s" % [show(x) for x in wrote[:5]], {})
                elif h2 is None or h2["magic"] not in (pkt.MAGIC_US, pkt.MAGIC_NS):
                    chk.violation("write-back|header", "the written file has no valid global header", {})
                else:
                    # second pass: the interpreter itself reads the file it wrote
                    reread.append((cid, outp, rc, max([len(x[2]) for x in recs] + [0])))
            elif cls == "truncated":
                _, recs, ops, cut, data = m
                full = pkt.pcap_file(recs)
                # number of complete records in the first `cut` bytes
                k = 0
                pos = 24
                for x in recs:
                    if pos + 16 + len(x[2]) <= cut:
                        k += 1
                        pos += 16 + len(x[2])
                    else:
                        break
                rc = [rec_canon(x) for x in recs[:k]]
                chk.observed((cls, "header" if cut < 24 else "records", k, ops[0][0]))
                if cut < 24:
                    if obs != [("s", "OPEN-ERROR")]:
                        chk.violation("truncated|short-global-header", "a file of %d bytes is opened without an error object: %s" % (cut, [show(x) for x in obs[:3]]), {"cut": cut})
                    continue
                if obs and obs[0] == ("s", "OPEN-ERROR"):
                    chk.violation("truncated|open-error", "a file with a complete global header and %d complete records cannot be opened" % k, {"cut": cut})
                    continue
                judge_partial(chk, cls, rc, ops, obs, "cut at byte %d of %d" % (cut, len(data)))
            else:
                _, recs, ops, (kind, good), data = m
                chk.observed((cls, kind, ops[0][0]))
                if good < 0:
                    if obs != [("s", "OPEN-ERROR")]:
                        chk.violation("corrupted|%s" % kind, "a file with %s is opened without an error object: %s" % (kind, [show(x) for x in obs[:3]]), {"file_hex": data.hex()[:200]})
                    continue
                if obs and obs[0] == ("s", "OPEN-ERROR"):
                    chk.violation("corrupted|open-error|%s" % kind, "a file whose header is intact cannot be opened", {"file_hex": data.hex()[:200]})
                    continue
                rc = [rec_canon(x) for x in recs[:good]]
                judge_partial(chk, cls + "|" + kind, rc, ops, obs, kind)
        rcases = [Case("rr" + cid, HELPERS + "let __o = []; let g = pcap_open(%s); if is_error(g) { push(__o, \"OPEN-ERROR\"); } else { push(__o, da(pcap_read_all(g))); }" % lit(outp),
                       {"globals": "__o", "steps": 3000000}) for cid, outp, rc, mx in reread]
        rres = core.run_cases(rcases, timeout=600)
        for cid, outp, rc, mx in reread:
            r = rres.get("rr" + cid)
            if r is None or r.get("outcome") != "ok":
                chk.inconc("re-read case: %s" % ((r or {}).get("outcome")))
                continue
            chk.observed(("reread", min(len(rc), 6), mx > 65535))
            obs = list(canon_dump(r["globals"]["__o"])[1])
            if obs != [("a", tuple(rc))]:
                chk.violation("write-back|reread|%s" % ("record-above-65535" if mx > 65535 else "records-up-to-65535"),
                              "the file written with pcap_write (%d records, longest %d bytes) reads back as %s instead of the same %d records" % (
                                  len(rc), mx, core.short(show(obs[0]) if obs else "nothing", 120), len(rc)), {"n_records": len(rc), "longest": mx})
        # ---- the same truncations arriving as a stream on stdin (pcap_stream, and filter mode), through the real binary
        script_next = os.path.join(work, "sn.p2")
        script_all = os.path.join(work, "sa.p2")
        script_flt = os.path.join(work, "sf.p2")
        with open(script_next, "w") as f:
            f.write("let s = pcap_stream(stdin);\nif is_error(s) { puts(\"OPEN-ERROR\"); } else {\n  let n = 0;\n  loop { let p = pcap_read_next(s); if p == null || is_error(p) { break; } "
                    "puts(p.sec, \" \", p.caplen, \" \", p.wirelen, \" \", len(p.payload)); n = n + 1; }\n  puts(\"N \", n);\n}\n")
        with open(script_all, "w") as f:
            f.write("let s = pcap_stream(stdin);\nif is_error(s) { puts(\"OPEN-ERROR\"); } else {\n  let a = pcap_read_all(s);\n  if is_error(a) { puts(\"ALL-ERROR\"); } else {\n"
                    "    let i = 0; while i < len(a) { puts(a[i].sec, \" \", a[i].caplen, \" \", a[i].wirelen, \" \", len(a[i].payload)); i = i + 1; }\n    puts(\"N \", len(a));\n  }\n}\n")
        with open(script_flt, "w") as f:
            f.write("@ true\n")
        # ---- a pcap_write that fails (wrong handle, full device) leaves no trace in what later pcap_writes put into other files
        src3 = os.path.join(work, "iso-src.pcap")
        with open(src3, "wb") as f:
            f.write(pkt.pcap_file([(k + 1, k, pkt.rand_frame(rng, well_formed=True)[0]) for k in range(5)]))
        good = os.path.join(work, "iso-good.pcap")
        iso = []
        setup = ["let ps = pcap_read_all(pcap_open(%s)); ps[1].eth; ps[3].eth.type;" % lit(src3)]
        probes = ["let o = pcap_open(%s, \"w\"); let i = 0; while i < len(ps) { pcap_write(o, ps[i]); i = i + 1; } puts(len(ps));" % lit(good)]
        for tag, failing in (("reader-handle", ["let rd = pcap_open(%s); puts(is_error(pcap_write(rd, ps[0]))); puts(is_error(pcap_write(rd, ps[1])));" % lit(src3)]),
                             ("full-device", ["let fd = pcap_open(\"/dev/full\", \"w\"); let j = 0; let e = false; while j < 400 { if is_error(pcap_write(fd, ps[j % 5])) { e = true; break; } j = j + 1; } puts(e);"]),
                             ("not-a-handle", ["pcap_write(5, ps[0]);"]), ("not-a-packet", ["pcap_write(pcap_open(%s, \"w\"), 5);" % lit(os.path.join(work, "iso-x.pcap"))]),
                             ("error-object-handle", ["pcap_write(pcap_open(\"/nonexistent/x\", \"w\"), ps[2]);"])):
            iso.append((tag, setup, failing, probes, [good]))
        core.isolation_after_errors(chk, "pcap_write", iso)
        # ---- complete streams copied from stdin to stdout (pcap_write on pcap_stream(stdout), and filter mode): records larger
        # than the stdout buffer that contain line-feed bytes at odd places, and many small records
        script_copy = os.path.join(work, "sc.p2")
        with open(script_copy, "w") as f:
            f.write("let s = pcap_stream(stdin); let o = pcap_stream(stdout);\nloop { let p = pcap_read_next(s); if p == null || is_error(p) { break; } let r = pcap_write(o, p); "
                    "if is_error(r) { eprintln(\"WRITE-ERROR\"); break; } }\n")
        for i in range(6 if quick else 120):
            recs = []
            if i % 3 == 2:
                recs = gen_records(rng, many=True)
            else:
                for k in range(rng.randint(1, 6)):
                    sz = rng.choice([60, 1100, 1200, 1500, 3000, 9000])
                    body = bytearray(bytes((j * 7 + k) % 251 + 1 if ((j * 7 + k) % 251 + 1) != 10 else 11 for j in range(sz)))
                    for _ in range(rng.randint(0, 2)):
                        body[rng.choice([0, 5, 20, sz // 2, max(0, sz - 1030), sz - 1])] = 10
                    recs.append((k + 1 if rng.random() < 0.8 else 0x0A0A0A0A, 10 if rng.random() < 0.3 else k, bytes(body), None, None))
            data = pkt.pcap_file(recs, snaplen=65535)
            want = [(r_[0], r_[1], len(r_[2]), r_[4] if r_[4] is not None else len(r_[2]), r_[2]) for r_ in recs]
            for mode, argv in (("copy", [script_copy]), ("filter", [script_flt])):
                rr = core.run_binary(argv, stdin_data=data, release=(i % 2 == 1), timeout=60)
                if rr["timeout"]:
                    chk.inconc("timeout (stream copy)")
                    continue
                chk.observed(("stream-copy", mode, min(len(recs), 8), any(len(r_[2]) > 1024 for r_ in recs)))
                if core.crashed(rr):
                    chk.violation("stream-crash|%s" % mode, "copying a pcap stream crashes the interpreter: %s" % rr["err"][-200:], {"n_records": len(recs)})
                    continue
                h2, recs2, rest = pkt.parse_pcap(rr["out"])
                if h2 is None or recs2 != want or rest:
                    k_ = next((j for j in range(min(len(recs2), len(want))) if recs2[j] != want[j]), min(len(recs2), len(want)))
                    chk.violation("stream-copy|%s|%s" % (mode, "large-records" if any(len(r_[2]) > 1024 for r_ in recs) else "small-records"),
                                  "a %d-record stream copied from stdin to stdout (%s) comes out with %d records and %d stray bytes; first difference at record %d (stderr %r)" % (
                                      len(recs), mode, len(recs2), len(rest), k_, rr["err"][-100:]), {"n_records": len(recs), "sizes": [len(r_[2]) for r_ in recs][:20]})
        for i in range(2 if quick else 40):
            recs = gen_records(rng)[:4]
            if not recs:
                continue
            data = pkt.pcap_file(recs, magic=rng.choice([pkt.MAGIC_US, pkt.MAGIC_NS]))
            bounds = [24]
            for r_ in recs:
                bounds.append(bounds[-1] + 16 + len(r_[2]))
            for cut in range(len(data) + 1):
                k = sum(1 for b in bounds[1:] if b <= cut)
                lines = ["%d %d %d %d" % (r_[0], len(r_[2]), r_[4] if r_[4] is not None else len(r_[2]), len(r_[2])) for r_ in recs[:k]]
                for mode, script in (("next", script_next), ("all", script_all), ("filter", script_flt)):
                    if quick and mode != "next" and cut % 3:
                        continue
                    rr = core.run_binary([script], stdin_data=data[:cut], release=(cut % 2 == 1), timeout=30)
                    if rr["timeout"]:
                        chk.inconc("timeout (stdin stream)")
                        continue
                    chk.observed(("stdin-stream", mode, min(k, 3), cut < 24))
                    if core.crashed(rr):
                        chk.violation("stream-crash|%s" % mode, "a pcap stream cut at byte %d crashes the interpreter: %s" % (cut, rr["err"][-200:]), {"stream_hex": data[:cut].hex()[:400]})
                        continue
                    out = rr["out"]
                    if mode == "filter":
                        if cut < 24:
                            continue      # no valid stream at all: only "no crash"
                        h2, recs2, rest = pkt.parse_pcap(out)
                        got = [(x[0], x[2], x[3], len(x[4])) for x in recs2] if h2 else None
                        want = [(r_[0], len(r_[2]), r_[4] if r_[4] is not None else len(r_[2]), len(r_[2])) for r_ in recs[:k]]
                        if got != want:
                            chk.violation("stream|filter|cut-%s" % ("in-body" if cut not in bounds else "at-boundary"),
                                          "filter mode on a stream cut at byte %d (after %d complete records) writes %s records, expected %d" % (
                                              cut, k, len(got) if got is not None else None, k), {"stream_hex": data[:cut].hex()[:400]})
                        continue
                    text = out.decode("utf-8", "replace").splitlines()
                    if cut < 24:
                        if text != ["OPEN-ERROR"]:
                            chk.violation("stream|short-global-header", "a stream of %d bytes is opened without an error object: %s" % (cut, text[:3]), {"cut": cut})
                        continue
                    ok = text == lines + ["N %d" % k] or (mode == "all" and text == ["ALL-ERROR"] and cut not in bounds)
                    if not ok:
                        chk.violation("stream|%s|cut-%s" % (mode, "in-body" if cut not in bounds else "at-boundary"),
                                      "pcap_stream(stdin) cut at byte %d (after %d complete records): printed %s, expected %s" % (cut, k, text[-3:], (lines + ["N %d" % k])[-3:]),
                                      {"stream_hex": data[:cut].hex()[:400], "mode": mode})
    finally:
        shutil.rmtree(work, ignore_errors=True)


def judge_partial(chk, cls, rc, ops, obs, what):
    """k complete records, then null or an error object; afterwards anything (no crash)"""
    c = 0
    for j, op in enumerate(ops):
        if j >= len(obs):
            chk.violation("partial|%s|missing" % cls, "%s: operation #%d produced nothing" % (what, j), {})
            return
        got = obs[j]
        if op[0] == "next":
            if c < len(rc):
                if got != rc[c]:
                    chk.violation("partial|%s|record" % cls, "%s: read #%d returned %s, the file holds record %d = %s" % (
                        what, j, core.short(show(got), 120), c, core.short(show(rc[c]), 120)), {})
                    return
                c += 1
            else:
                if got not in (("null",), ("s", "E")):
                    chk.violation("partial|%s|after-last" % cls, "%s: after the %d complete records a read returned %s instead of null or an error object" % (
                        what, len(rc), core.short(show(got), 120)), {})
                return
        else:
            n = op[1] if op[0] == "alln" else len(rc) + 10
            want = tuple(rc[c:c + n])
            if c + n <= len(rc):
                if got != ("a", want):
                    chk.violation("partial|%s|slice" % cls, "%s: read_all returned %s, expected the next %d records" % (what, core.short(show(got), 120), n), {})
                    return
                c += n
            else:
                if got != ("a", want) and got != ("s", "E"):
                    chk.violation("partial|%s|tail" % cls, "%s: read_all returned %s, expected the %d remaining complete records or an error object" % (
                        what, core.short(show(got), 160), len(want)), {})
                return
