"""C14 - bytecode operands are encoded losslessly or the program is rejected.

Monitors (inside the probe, fed by the compiler and VM hooks):
 (i)   emit-intent vs decoded final code: every emit/patch/replace/truncate event of the compiler
       is replayed into an intent table (operands as usize, before make() narrows them) and
       compared with what the finished byte stream of each scope decodes to;
 (ii)  code-layout walk: every ip the VM executes must be an instruction start of that layout and
       every fall-through successor must be ip + 1 + sum(widths) (the VM reads each operand with
       the width the encoder wrote);
 (iii) make() -> read_operands() round trip for every opcode and operand value.
Workload: generated programs (all constructs), and limit programs just below / just above every
encoding limit, incl. constants accumulated over a REPL session."""
import os
import shutil
from concurrent.futures import ThreadPoolExecutor

from . import core, gen
from .core import Case
from .val import canon_dump, show


def fn_chunks(n_consts, first=1000000, per=500):
    """source defining functions that together hold n_consts distinct integer constants"""
    out = []
    k = 0
    i = 0
    while k < n_consts:
        m = min(per, n_consts - k)
        out.append("fn c%d() { [%s] }" % (i, ", ".join(str(first + k + j) for j in range(m))))
        k += m
        i += 1
    return "\n".join(out), i


def limit_programs(quick):
    """-> list of (name, source, expectation, vehicle) ; expectation: ('reject',) | ('obs', [values as shown])"""
    P = []
    # ---- constants (each integer literal is one constant; functions and closures are constants too)
    for n, exp in ((65000, "ok"), (65534, "ok"), (65536, "reject"), (66000, "reject")):
        body, nf = fn_chunks(n - 2 if exp == "ok" else n)   # the checking line below adds 2 more
        tail = "\nlet __o = []; push(__o, last(c%d())); push(__o, first(c0()));\n" % (nf - 1)
        # functions themselves are constants: count them in
        total = (n - 2 if exp == "ok" else n) + nf
        if exp == "ok" and total + 4 > 65536:
            body, nf = fn_chunks(65536 - 4 - (nf + 2))
            tail = "\nlet __o = []; push(__o, last(c%d())); push(__o, first(c0()));\n" % (nf - 1)
        P.append(("constants-%d" % n, body + tail, ("reject",) if exp == "reject" else ("ok-last-first",), "probe"))
    # string / match-pattern / float constants crossing the limit
    body, nf = fn_chunks(65600)
    P.append(("constants-string-after-limit", body + "\nlet s = \"beyond\"; puts(s);", ("reject",), "probe"))
    P.append(("constants-match-pattern-after-limit", body + "\nlet s = match 5 { 5 => 1, _ => 2 };", ("reject",), "probe"))
    # ---- locals
    for n in (200, 255, 256, 257, 300):
        lets = " ".join("let v%d = %d;" % (i, i) for i in range(n))
        src = "let __o = []; fn f() { %s push(__o, v0); push(__o, v%d); v%d } push(__o, f());" % (lets, n - 1, n - 1)
        P.append(("locals-%d" % n, src, ("obs", ["0", str(n - 1), str(n - 1)]) if n <= 256 else ("reject",), "probe"))
    # parameters / call arguments
    for n in (100, 255, 256, 300):
        params = ", ".join("a%d" % i for i in range(n))
        args = ", ".join(str(i) for i in range(n))
        src = "let __o = []; fn f(%s) { push(__o, a0); a%d } push(__o, f(%s));" % (params, n - 1, args)
        P.append(("arguments-%d" % n, src, ("obs", ["0", str(n - 1)]) if n <= 255 else ("reject",), "probe"))
    for n in (255, 256, 260):
        src = "let __o = []; push(__o, len([%s])); puts(%s);" % (", ".join("1" for _ in range(n)), ", ".join("1" for _ in range(n)))
        P.append(("builtin-call-arguments-%d" % n, src, ("obs", [str(n)]) if n <= 255 else ("reject",), "probe"))
    # captured variables
    for n in (100, 255, 256, 257):
        lets = " ".join("let v%d = %d;" % (i, i) for i in range(n))
        uses = " + ".join("v%d" % i for i in range(n))
        m = n if n <= 250 else n  # locals v0..v(n-1) plus the closure slot g => n+1 locals when n=255
        src = "let __o = []; fn o() { %s fn() { %s } } push(__o, o()());" % (lets, uses)
        ok = n <= 255
        P.append(("captured-%d" % n, src, ("obs", [str(n * (n - 1) // 2)]) if ok else ("reject",), "probe"))
    # ---- array / map literal sizes (elements are a global, not constants)
    for n in ((4000,) if quick else (4000, 65535, 65536, 70000)):
        src = "let a = 1; fn f() { [%s] } let z = 1;" % ", ".join("a" for _ in range(n))
        P.append(("array-literal-%d" % n, src, ("accept",) if n <= 65535 else ("reject",), "binary"))
    for n in ((2000,) if quick else (2000, 32767, 32768, 40000)):
        src = "let a = 1; fn f() { map {%s} } let z = 1;" % ", ".join("%d: a" % i for i in range(n))
        # every key is a constant: 32768 keys are fine for the constant pool, the operand counts keys+values
        P.append(("map-literal-%d" % n, src, ("accept",) if n * 2 <= 65535 else ("reject",), "binary"))
    # ---- jump distances (body of 4 bytes per statement: GetGlobal + Pop)
    for n, far in ((1000, False), (16000, False), (16500, True), (20000, True)):
        body = " ".join("a;" for _ in range(n))
        for form, tmpl, obs in (
                ("if", "let a = 1; let __o = []; fn f(c) { if c { %s 1 } else { 2 } } push(__o, f(true)); push(__o, f(false));", ["1", "2"]),
                ("while", "let a = 1; let __o = []; fn f() { let i = 0; while i < 2 { i = i + 1; %s } i } push(__o, f());", ["2"]),
                ("and", "let a = 1; let __o = []; fn f(c) { c && (fn() { %s 7 })() } push(__o, f(false)); push(__o, f(true));", ["false", "7"]),
                ("match", "let a = 1; let __o = []; fn f(c) { match c { 1 => { %s 1 }, 2 => { 2 }, _ => { 3 } } } push(__o, f(1)); push(__o, f(2)); push(__o, f(9));", ["1", "2", "3"]),
                ("loop-break", "let a = 1; let __o = []; fn f() { let i = 0; loop { i = i + 1; if i > 1 { break; } %s } i } push(__o, f());", ["2"])):
            if quick and n > 5000 and form not in ("if", "while"):
                continue
            if quick and n == 20000:
                continue
            if form == "and":
                exp = ("obs", obs)   # the big body sits in its own function: no long jump in f
            else:
                exp = ("reject",) if far else ("obs", obs)
            P.append(("jump-%s-%d" % (form, n), tmpl % body, exp, "binary" if n > 5000 else "probe"))
    # ---- captured variables summed over two enclosing levels, initialised without literals (the inner function stays among
    # the first constants)
    for na, nb in ((128, 127), (128, 128), (200, 100), (254, 1), (254, 2), (255, 255)):
        la = " ".join("let a%d = z;" % i for i in range(na))
        lb = " ".join("let b%d = z;" % i for i in range(nb))
        uses = " + ".join(["a%d" % i for i in range(na)] + ["b%d" % i for i in range(nb)])
        src = "let z = 1; let __o = []; fn o() { %s fn() { %s fn() { %s } } } push(__o, o()()());" % (la, lb, uses)
        P.append(("captured-two-levels-%d+%d" % (na, nb), src, ("obs", [str(na + nb)]) if na + nb <= 255 else ("reject",), "probe"))
    # ---- forward jumps whose target, cut to 16 bits, equals the 0xFFFF placeholder they were emitted with (131071, 196607):
    # body bytes = 4 per `a;`, 5 per `-a;`; exit target of `fn f(c) { while c { BODY } ... }` = len(BODY) + 8
    for target in ((131071,) if quick else (131071, 196607, 131071 + 65536 * 2)):
        nb = target - 8
        for delta in (0, -4, 4, 1):
            x, y = (nb + delta - 15) // 4, 3
            body = "a; " * x + "-a; " * y
            if delta == 1:
                body += "-a; -a; -a; -a; " [:0]      # (kept: a target one off the special value)
                body = "a; " * ((nb + 1 - 20) // 4) + "-a; " * 4
            P.append(("jump-placeholder-target-%d%+d" % (target, delta), "let a = 1; fn f(c) { while c { %s } return 0; } let z = 1;" % body, ("reject",), "binary"))
    if True:
        # a capturing function literal compiled when the constant pool is just about full: a window of pool sizes around
        # 65536 (each filler function holds distinct integer literals); either the program is rejected or it prints 4
        for where, tail in (("filter-end", "@ end { let k = z; let f = fn(x) { x + k }; push(__o, f(z)); puts(__o); }"),
                            ("function", "fn g() { let k = z; let f = fn(x) { x + k }; f(z) } push(__o, g());"),
                            ("toplevel-block", "{ let k = z; let f = fn(x) { x + k }; push(__o, f(z)); }")):
            for total in range(65536 - 45, 65536 + 3):
                parts = []
                left = total
                base = 100000
                fi = 0
                while left > 0:
                    take = min(4000, left)
                    parts.append("fn fill%d() { [%s] }" % (fi, ", ".join(str(base + j) for j in range(take))))
                    base += take
                    left -= take
                    fi += 1
                P.append(("constants-near-full-then-closure-%s-%d" % (where, total), "let z = 2; let __o = [];\n" + "\n".join(parts) + "\n" + tail, ("obs-or-reject", ["4"]), "binary-slow"))
    # ---- two-byte operands in use (values 256..), with the values read back: globals defined, read and ASSIGNED beyond
    # index 255, constants, function literals and builtins reached through high constant-pool indices, literals of 256+
    # elements indexed at the far end
    for n in (300, 700) if quick else (257, 300, 700, 4000):      # (a literal of more than 4096 elements cannot run: operand stack size)
        lets = " ".join("let g%d = %d;" % (i, i) for i in range(n))
        hi, mid = n - 1, n - 40
        src = ("let __o = []; %s g%d = 777000; g%d = g%d + 1000; fn bump() { g%d = g%d + 1; g%d } push(__o, [g%d, g%d, g%d, g%d, g0, g1, bump(), g%d]);"
               % (lets, mid, hi, hi, mid + 1, mid + 1, mid + 1, mid, mid & 0xFF, hi, hi & 0xFF, mid + 1))
        exp = "[777000, %d, %d, %d, 0, 1, %d, %d]" % ((mid & 0xFF) if (mid & 0xFF) != mid else 777000, hi + 1000, hi & 0xFF, mid + 2, mid + 2)
        P.append(("wide-globals-assigned-%d" % n, src, ("obs", [exp]), "probe"))
        consts = ", ".join(str(100000 + i) for i in range(n))
        src = ("let __o = []; let big = [%s]; fn late() { [%d, \"late\"] } let lam = fn(x) { x + %d }; push(__o, [big[%d], big[%d], big[255], big[256], len(big), late(), lam(1), len(\"tail-%d\")]);"
               % (consts, 900000 + n, 800000 + n, n - 1, (n - 1) & 0xFF, n))
        exp = "[%d, %d, 100255, 100256, %d, [%d, \"late\"], %d, %d]" % (100000 + n - 1, 100000 + ((n - 1) & 0xFF), n, 900000 + n, 800001 + n, len("tail-%d" % n))
        P.append(("wide-constants-in-use-%d" % n, src, ("obs", [exp]), "probe"))
        npairs = min(n, 1900)      # (keys and values of a map literal share the 4096-slot operand stack)
        pairs = ", ".join("%d: g" % i for i in range(npairs))
        src = "let __o = []; let g = 5; let m = map {%s}; let arr = [%s]; push(__o, [len(m), m[%d], len(arr), arr[%d]]);" % (pairs, ", ".join("g" for _ in range(n)), npairs - 1, n - 1)
        P.append(("wide-literals-in-use-%d" % n, src, ("obs", ["[%d, 5, %d, 5]" % (npairs, n)]), "probe"))
    # ---- backward jumps (the closing jump of loop / while, continue) are emitted with their final target
    for n, far in ((15000, False), (16500, True)):
        body = " ".join("a;" for _ in range(n))
        P.append(("jump-back-loop-%d" % n, "let a = 1; let arr = [0, 1, 2, 3]; let k = 0; %s loop { k = k + 1; arr[k]; }" % body, ("reject",) if far else ("accept",), "binary"))
        P.append(("jump-back-loop-in-fn-%d" % n, "let a = 1; let arr = [0, 1, 2, 3]; fn f() { let k = 0; %s loop { k = k + 1; arr[k]; } } f();" % body,
                  ("reject",) if far else ("accept",), "binary"))
    # ---- the short-circuit jump (&&, ||, filter pattern -> action) over a long right operand / action
    for n, far in ((15000, False), (22000, True)):
        arr = "[" + ", ".join("a" for _ in range(n)) + "]"
        body = " ".join("a;" for _ in range(n))
        P.append(("jump-and-direct-%d" % n, "let a = 1; fn f(c) { c && %s } let z = 1;" % arr, ("reject",) if far else ("accept",), "binary"))
        P.append(("jump-or-direct-%d" % n, "let a = 1; fn f(c) { c || %s } let z = 1;" % arr, ("reject",) if far else ("accept",), "binary"))
        P.append(("jump-and-toplevel-%d" % n, "let a = 1; let c = false; let r = c && %s; let z = 1;" % arr, ("reject",) if far else ("accept",), "binary"))
        P.append(("jump-filter-action-%d" % n, "let a = 1; @ PL > 100000 { %s } let z = 1;" % body, ("reject",) if n * 4 > 65535 else ("accept",), "binary"))
    # ---- globals
    if not quick:
        for n in (65534, 65536, 65540):
            src = "\n".join("let g%d = %d;" % (i, i) for i in range(n)) + "\nlet __o = [];\n"
            ok = n + 1 <= 65536
            P.append(("globals-%d" % n, src + ("push(__o, g0); push(__o, g%d);" % (n - 1)), ("obs", ["0", str(n - 1)]) if ok else ("reject",), "binary-slow"))
    return P


def run(chk):
    rng = chk.rng
    quick = chk.tier == "quick"
    chk.rule = ("make/read_operands round trip for every opcode x operand value (Closure: all 2^16 first operands x %s second "
                "operands); emit-intent and code-layout monitors armed on generated programs; limit programs just below and just "
                "above every encoding limit (constants, locals, arguments, captured variables, array/map sizes, jump distances%s), "
                "constants accumulated over a REPL session; distinct = distinct (limit, size, outcome) and opcode sets executed"
                % ("7 boundary" if quick else "all 256", "" if quick else ", globals"))
    chk.assumptions = ["the operand widths used by the layout monitor are transcribed from the VM's inline decoding, not taken from the "
                       "repository's DEFINITIONS table", "array literals above 4096 elements cannot run (operand stack size); only their "
                       "compilation is judged"]
    chk.floor = 300
    chk.rule += '; plus captured variables summed over two enclosing levels, direct && / || / filter-action long jumps, backward long jumps, two-byte operands in use with the values read back (globals assigned beyond index 255, high constant-pool indices, literals of 256+ elements), a window of constant-pool sizes around 65536 followed by a capturing function literal'
    # (iii) round trip
    r = core.run_one("", {"full": 1} if not quick else {}, cmd="OPCODES", timeout=1200)
    if "checked" not in r:
        chk.inconc("opcode round trip did not complete: %s" % r.get("outcome"))
    else:
        chk.observed(("roundtrip",), r["checked"])
        chk.count("roundtrip_instructions", r["checked"])
        chk.extra["exhaustive_subspaces"] = ["make->read_operands for all 48 opcodes x all operand values" + ("" if not quick else " (Closure second operand sampled)")]
        for m in r["mismatches"]:
            chk.violation("roundtrip|" + m.split(" ")[0], "make/read_operands round trip differs: %s" % m, {"mismatch": m})
    # generated programs with both monitors armed
    n = 2500 if quick else 80000
    progs = []
    while len(progs) < n:
        g = gen.Gen(rng, max_depth=rng.choice([2, 3, 4]), illtyped=rng.random() < 0.2)
        p = g.program()
        progs.append(gen.PRELUDE + gen.render(p)[0])
    cases = [Case("g%d" % i, t, {"mon": "emits,layout", "steps": 300000}) for i, t in enumerate(progs)]
    LP = limit_programs(quick)
    for i, (name, src, exp, veh) in enumerate(LP):
        if veh == "probe":
            cases.append(Case("L%d" % i, src, {"mon": "emits,layout", "steps": 3000000, "globals": "__o"}))
    res = core.run_cases(cases, timeout=900)
    emits = layout = scopes = 0
    maxop = 0
    for i, t in enumerate(progs):
        r = res.get("g%d" % i)
        if r is None or r.get("outcome") in ("panic", "parse_errors", "hang", "died"):
            continue
        e = r.get("emit")
        if e:
            emits += e["instructions"]
            scopes += e["scopes"]
            for m in e["mismatches"]:
                chk.violation("emit|" + core.msg_class(m)[:60], "emitted instruction does not decode to what the compiler meant: %s" % m, {"src": t, "mismatch": m})
        lay = r.get("layout")
        if lay:
            layout += lay["checked"]
            for m in lay["violations"]:
                chk.violation("layout|" + core.msg_class(m)[:60], "the VM left the encoder's instruction layout: %s" % m, {"src": t, "violation": m})
        chk.observed(("gen", tuple(r.get("ops", [])[:64])))
        if i % 613 == 0:
            chk.sample({"program": core.short(t, 200), "instructions_checked": (e or {}).get("instructions"), "vm_steps_walked": (lay or {}).get("checked")})

    def judge_limit(name, src, exp, oc, obs, diag, extra=None):
        chk.observed(("limit", name, oc))
        chk.sample({"limit_program": name, "expected": exp[0], "outcome": oc, "observed": obs}, cap=40)
        if exp[0] == "reject":
            if oc != "compile_error":
                chk.violation("limit-not-rejected|" + name.rsplit("-", 1)[0], "%s: expected a compile error, got %s %s" % (name, oc, obs or ""),
                              {"name": name, "src": core.short(src, 400), "outcome": oc, "observed": obs})
        elif exp[0] == "accept":
            if oc in ("compile_error", "parse_errors"):
                chk.violation("limit-rejected-below|" + name.rsplit("-", 1)[0], "%s: within the limits but rejected: %s" % (name, diag), {"name": name})
        elif exp[0] == "obs-or-reject":
            if oc != "compile_error" and (oc != "ok" or obs != exp[1]):
                chk.violation("limit-miscompiled|" + name.rsplit("-", 1)[0], "%s: either a compile error or %s is right, got %s %s %s" % (name, exp[1], oc, obs, diag or ""),
                              {"name": name, "outcome": oc, "observed": obs})
        elif exp[0] == "ok-last-first":
            if oc != "ok" or not obs or len(obs) != 2 or obs[1] != "1000000":
                chk.violation("limit-miscompiled|" + name.rsplit("-", 1)[0], "%s: within the limits, expected [last, first constant], got %s %s %s" % (name, oc, obs, diag or ""),
                              {"name": name, "outcome": oc, "observed": obs})
        else:
            if oc != "ok" or obs != exp[1]:
                chk.violation("limit-miscompiled|" + name.rsplit("-", 1)[0], "%s: within the limits, expected %s, got %s %s %s" % (name, exp[1], oc, obs, diag or ""),
                              {"name": name, "src": core.short(src, 400), "outcome": oc, "observed": obs})

    for i, (name, src, exp, veh) in enumerate(LP):
        if veh != "probe":
            continue
        r = res.get("L%d" % i)
        if r is None or r.get("outcome") in ("hang", "died"):
            chk.inconc("limit program %s: %s" % (name, (r or {}).get("outcome", "missing")))
            continue
        oc = r.get("outcome")
        if oc == "panic":
            chk.violation("limit-panic|" + name.rsplit("-", 1)[0], "%s panics: %s" % (name, r["panic"]["msg"]), {"name": name, "panic": r["panic"]})
            continue
        obs = [show(x) for x in canon_dump(r["globals"]["__o"])[1]] if r.get("globals", {}).get("__o") is not None else None
        e = r.get("emit")
        if e and oc != "compile_error":
            emits += e["instructions"]
            maxop = max(maxop, e["max_operand"])
            for m in e["mismatches"]:
                chk.violation("emit|limit|" + name.rsplit("-", 1)[0], "%s compiled, but an operand was truncated: %s" % (name, m), {"name": name, "mismatch": m})
        lay = r.get("layout")
        if lay:
            layout += lay["checked"]
            for m in lay["violations"]:
                chk.violation("layout|limit|" + name.rsplit("-", 1)[0], "%s: %s" % (name, m), {"name": name})
        judge_limit(name, src, exp, oc, obs, r.get("diag") or r.get("rt"))
    # big limit programs through the real binary (release), in parallel
    work = core.scratch_dir()
    try:
        big = [(i, x) for i, x in enumerate(LP) if x[3] != "probe"]

        def run_big(item):
            i, (name, src, exp, veh) = item
            path = os.path.join(work, "L%d.p2" % i)
            with open(path, "w") as f:
                f.write(src + ("" if "@ end" in src else ("\nputs(__o);\n" if "__o" in src else "\nputs(\"compiled\");\n")))
            # allocator settings only: the compiler reallocates its instruction vector on every emit, which the default
            # trimming turns into minutes for 100 KiB of code
            menv = dict(os.environ, MALLOC_TOP_PAD_="268435456", MALLOC_TRIM_THRESHOLD_="536870912", MALLOC_MMAP_THRESHOLD_="1073741824")
            from . import pkt as _pkt
            rr = core.run_binary((["-s"] if "@ end" in src else []) + [path], release=True, timeout=900, step_budget=5000000, env=menv,
                                 stdin_data=(_pkt.pcap_header() if "@ " in src else b""))
            os.unlink(path)
            return rr
        with ThreadPoolExecutor(max_workers=core.NCPU) as ex:
            for (i, (name, src, exp, veh)), rr in zip(big, ex.map(run_big, big)):
                if rr["timeout"]:
                    chk.inconc("limit program %s timed out on the release binary" % name)
                    continue
                err = rr["err"].decode("utf-8", "replace")
                out = rr["out"].decode("utf-8", "replace").strip()
                if core.crashed(rr):
                    chk.violation("limit-panic|" + name.rsplit("-", 1)[0], "%s crashes the binary: %s" % (name, err[-200:]), {"name": name})
                    continue
                if "compile error" in err:
                    oc = "compile_error"
                elif "parse errors" in err:
                    oc = "parse_errors"
                elif "Runtime error" in err:
                    oc = "rt_error"
                else:
                    oc = "ok"
                obs = None
                if out.startswith("[") and out.endswith("]"):
                    obs = [x.strip() for x in out[1:-1].split(",")] if out != "[]" else []
                judge_limit(name, src, exp, oc, obs, err[-200:])
        # constants accumulated over a REPL session (real run_prompt loop, scripted line source)
        lines = []
        body, nf = fn_chunks(65400, per=400)
        lines += body.split("\n")
        lines.append("let keep = 4242;")
        lines.append("fn late1() { [%s] }" % ", ".join(str(2000000 + j) for j in range(100)))
        lines.append("fn late2() { [%s] }" % ", ".join(str(3000000 + j) for j in range(100)))
        lines.append("puts(\"K\", keep, \"L\", last(late2()), first(c0()));")
        e = dict(os.environ, P2SH_VERIF_REPL_STDIN="1")
        rr = core.run_binary([], stdin_data=("\n".join(lines) + "\n").encode(), release=True, timeout=600, env=e)
        if rr["timeout"] or core.crashed(rr):
            chk.inconc("REPL accumulation run did not finish (%s)" % ("timeout" if rr["timeout"] else "crash"))
        else:
            out = rr["out"].decode("utf-8", "replace")
            err = rr["err"].decode("utf-8", "replace")
            chk.observed(("repl-accumulation", "compile error" in err))
            printed = [l for l in out.splitlines() if l.startswith("K")]
            # either the line that crosses the limit is rejected, or everything still reads back correctly
            good = ("compile error" in err and (not printed or printed[0].startswith("K4242L"))) or (printed and printed[0] == "K4242L30000991000000")
            wrong_value = printed and printed[0] != "K4242L30000991000000" and "compile error" not in err
            if wrong_value or not good:
                chk.violation("repl-accumulation", "constants accumulated over REPL lines are miscompiled past 65535: printed %s, stderr %s" % (printed, err[-200:]),
                              {"printed": printed, "stderr": err[-400:]})
            chk.sample({"repl_accumulation": {"lines": len(lines), "printed": printed, "compile_error_reported": "compile error" in err}}, cap=41)
    finally:
        shutil.rmtree(work, ignore_errors=True)
    chk.count("emitted_instructions_checked", emits)
    chk.count("scopes_checked", scopes)
    chk.count("vm_steps_walked_along_layout", layout)
    chk.count("largest_operand_seen_in_accepted_program", maxop)
    if emits == 0 or layout == 0:
        chk.inconc("emit/layout monitors observed nothing")
        chk.evaluations = 0
