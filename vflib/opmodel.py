"""Reference model of the operators (the statement of C09 plus the truthiness
table of C06), independent of the repository code."""
import math

from .val import (Arr, Byte, Char, I64_MAX, I64_MIN, Map, kind, wrap64)


class RuntimeErr(Exception):
    """the model says: runtime error"""


class Unspecified(Exception):
    """the property statements do not fix this corner: no verdict"""


class Alt:
    """several outcomes are allowed"""

    def __init__(self, values, allow_error):
        self.values = values
        self.allow_error = allow_error


ARITH = ("+", "-", "*", "/", "%")
SHIFT = ("<<", ">>")
BITS = ("&", "|", "^")
REL = ("<", ">", "<=", ">=")
EQ = ("==", "!=")
ALL_BINOPS = ARITH + SHIFT + BITS + REL + EQ


def falsey(v):
    if v is None or v is False:
        return True
    if v is True:
        return False
    if isinstance(v, int):
        return v == 0
    if isinstance(v, float):
        return v == 0.0
    if isinstance(v, Char):
        return v.cp == 0
    if isinstance(v, Byte):
        return v.n == 0
    if isinstance(v, str):
        return v == ""
    if isinstance(v, Arr):
        return len(v.items) == 0
    if isinstance(v, Map):
        return len(v.pairs) == 0
    return False


def _tdiv(a, b):
    q = abs(a) // abs(b)
    return q if (a < 0) == (b < 0) else -q


def _fmod(a, b):
    try:
        return math.fmod(a, b)
    except ValueError:
        return math.nan


def _fdiv(a, b):
    if b == 0.0:
        if a != a or a == 0.0:
            return math.nan
        neg = (math.copysign(1.0, a) < 0) != (math.copysign(1.0, b) < 0)
        return -math.inf if neg else math.inf
    return a / b


def _fmul(a, b):
    try:
        return a * b
    except OverflowError:
        return math.inf


def num(v):
    return isinstance(v, (int, float)) and not isinstance(v, bool)


def values_equal(a, b):
    """the `==` of the language for kinds where the statements fix it; raises
    Unspecified for byte against integer/float"""
    ka, kb = kind(a), kind(b)
    if ka in ("int", "float") and kb in ("int", "float"):
        if ka == "int" and kb == "int":
            return a == b
        return float(a) == float(b)
    if (ka == "byte" and kb in ("int", "float")) or (kb == "byte" and ka in ("int", "float")):
        raise Unspecified("== between byte and integer/float")
    if ka != kb:
        return False
    if ka == "null":
        return True
    if ka in ("bool", "string"):
        return a == b
    if ka == "char":
        return a.cp == b.cp
    if ka == "byte":
        return a.n == b.n
    if ka == "array":
        if len(a.items) != len(b.items):
            return False
        for x, y in zip(a.items, b.items):
            if (isinstance(x, float) and x != x) or (isinstance(y, float) and y != y):
                # no statement fixes whether two arrays that hold a not-a-number at the same place are equal (element
                # identity or IEEE comparison of the elements): no verdict
                raise Unspecified("== between arrays holding NaN")
            if not values_equal(x, y):
                return False
        return True
    if ka == "builtin":
        return a.name == b.name
    if ka == "map":
        if len(a.pairs) != len(b.pairs):
            return False
        if not a.pairs:
            return True
        raise Unspecified("== between non-trivial maps")
    raise Unspecified("== between %s values" % ka)


def binop(op, a, b):
    """returns the value, or an Alt; raises RuntimeErr / Unspecified"""
    ka, kb = kind(a), kind(b)
    if op in EQ:
        r = values_equal(a, b)
        return r if op == "==" else (not r)

    numeric = ("int", "float", "byte")
    if ka in numeric and kb in numeric:
        if op in ARITH:
            if ka == "float" or kb == "float":
                x = float(a.n) if ka == "byte" else float(a)
                y = float(b.n) if kb == "byte" else float(b)
                if op == "+":
                    return x + y
                if op == "-":
                    return x - y
                if op == "*":
                    return _fmul(x, y)
                if op == "/":
                    if y == 0.0:
                        return Alt([_fdiv(x, y)], True)
                    return _fdiv(x, y)
                if y == 0.0:
                    return Alt([math.nan], True)
                return _fmod(x, y)
            if ka == "byte" and kb == "byte":
                x, y = a.n, b.n
                if op in ("/", "%") and y == 0:
                    raise RuntimeErr("zero divisor")
                r = {"+": x + y, "-": x - y, "*": x * y, "/": (x // y if y else 0), "%": (x % y if y else 0)}[op]
                return Byte(r)
            x = a.n if ka == "byte" else a
            y = b.n if kb == "byte" else b
            if op in ("/", "%") and y == 0:
                raise RuntimeErr("zero divisor")
            if op == "+":
                return wrap64(x + y)
            if op == "-":
                return wrap64(x - y)
            if op == "*":
                return wrap64(x * y)
            if op == "/":
                return wrap64(_tdiv(x, y))
            return wrap64(x - y * _tdiv(x, y))
        if op in SHIFT or op in BITS:
            if ka == "int" and kb == "int":
                if op == "<<":
                    return wrap64(a << (b % 64))
                if op == ">>":
                    return a >> (b % 64)
                return {"&": a & b, "|": a | b, "^": a ^ b}[op]
            if ka == "float" or kb == "float":
                raise RuntimeErr("bitwise on float")
            raise Unspecified("bitwise/shift with a byte operand")
        if op in REL:
            if ka == "byte" and kb == "byte":
                x, y = a.n, b.n
            elif ka == "byte" or kb == "byte":
                raise Unspecified("ordering between byte and integer/float")
            elif ka == "int" and kb == "int":
                x, y = a, b
            else:
                x, y = float(a), float(b)
            return {"<": x < y, ">": x > y, "<=": x <= y, ">=": x >= y}[op]

    if ka == "string" and kb == "string":
        if op == "+":
            if len(a) + len(b) > 2_000_000:
                raise Unspecified("huge value")
            return a + b
        if op in REL:
            x, y = a.encode("utf-8"), b.encode("utf-8")
            return {"<": x < y, ">": x > y, "<=": x <= y, ">=": x >= y}[op]
        raise RuntimeErr("strings")
    if ka == "char" and kb == "char":
        if op == "+":
            return chr(a.cp) + chr(b.cp)
        if op in REL:
            x, y = a.cp, b.cp
            return {"<": x < y, ">": x > y, "<=": x <= y, ">=": x >= y}[op]
        raise RuntimeErr("chars")
    if ka == "array" and kb == "array":
        if op == "+":
            if len(a.items) + len(b.items) > 500_000:
                raise Unspecified("huge value")
            return Arr(a.items + b.items)
        raise RuntimeErr("arrays")
    if ka == "string" and kb == "int" and op == "*":
        if b < 0:
            raise RuntimeErr("negative repetition")
        if len(a.encode("utf-8")) * b > 2_000_000:
            raise Unspecified("huge repetition")
        return a * b
    if ka == "int" and kb == "string" and op == "*":
        raise Unspecified("integer * string")
    raise RuntimeErr("%s %s %s" % (ka, op, kb))


def unop(op, a):
    ka = kind(a)
    if op == "!":
        return falsey(a)
    if op == "-":
        if ka == "int":
            return wrap64(-a)
        if ka == "float":
            return -a
        raise RuntimeErr("unary - on %s" % ka)
    if op == "~":
        if ka == "int":
            return ~a
        if ka == "byte":
            raise Unspecified("~ on byte")
        raise RuntimeErr("~ on %s" % ka)
    raise ValueError(op)
