"""C17 - assigning a header field changes exactly that field.

For a writable property P (bit range R of layer L): after `x.P = v` the
script reads P and every other property of L, writes the packet, and the
checker compares (a) read-back = v, (b) all other properties unchanged,
(c) written bytes differ from the captured ones only inside R and hold v
there, (d) P = v after re-opening the written file. Out-of-range / wrong-kind
values must either raise a runtime error or be stored reduced to the width."""
import os
import shutil

from . import core, pkt
from .core import Case
from .c16 import matches, tcp_flags_ok
from .val import canon_dump, lit, show

STACKS = [["eth"], ["eth", "vlan"], ["eth", "ipv4"], ["eth", "ipv6"], ["eth", "ipv4", "tcp"], ["eth", "ipv4", "udp"],
          ["eth", "ipv6", "tcp"], ["eth", "ipv6", "udp"], ["eth", "vlan", "ipv4", "tcp"], ["eth", "vlan", "vlan", "ipv6", "udp"],
          ["eth", "ipv4", "ipv6", "udp"], ["eth", "vlan", "ipv6", "tcp"]]


def build_stack(rng, stack):
    """-> (frame, [start offset per layer])"""
    payload = pkt.rand_bytes(rng, rng.choice([0, 5, 24, 60]))
    body = payload
    # build from the innermost layer outwards
    sizes = []
    for i in range(len(stack) - 1, -1, -1):
        kind = stack[i]
        inner = stack[i + 1] if i + 1 < len(stack) else None
        if kind == "tcp":
            doff = rng.choice([5, 5, 6, 8, 15])
            body = pkt.tcp(rng.getrandbits(16), rng.getrandbits(16), body, rng.getrandbits(32), rng.getrandbits(32), doff, rng.getrandbits(12),
                           rng.getrandbits(16), rng.getrandbits(16), rng.getrandbits(16))
        elif kind == "udp":
            body = pkt.udp(rng.getrandbits(16), rng.getrandbits(16), body, None, rng.getrandbits(16))
        elif kind == "ipv6":
            nh = {"tcp": 6, "udp": 17}.get(inner, 59)
            # now and then a version nibble other than 6 (a damaged header is still decoded by its EtherType / protocol)
            body = pkt.ipv6(pkt.rand_bytes(rng, 16), pkt.rand_bytes(rng, 16), nh, body, rng.getrandbits(8), rng.getrandbits(20), None, rng.getrandbits(8),
                            6 if rng.random() < 0.8 else rng.choice([0, 4, 7, 15]))
        elif kind == "ipv4":
            pr = {"tcp": 6, "udp": 17, "ipv6": 41}.get(inner, 1)
            ihl = rng.choice([5, 5, 6, 10, 15])
            body = pkt.ipv4(pkt.rand_bytes(rng, 4), pkt.rand_bytes(rng, 4), pr, body, ihl, rng.getrandbits(6), rng.getrandbits(2), None,
                            rng.getrandbits(16), rng.getrandbits(3), rng.getrandbits(13), rng.getrandbits(8), rng.getrandbits(16))
        elif kind == "vlan":
            et = {"vlan": pkt.ET_VLAN, "ipv4": pkt.ET_IPV4, "ipv6": pkt.ET_IPV6}.get(inner, 0x0806)
            body = pkt.vlan(rng.getrandbits(3), rng.getrandbits(1), rng.getrandbits(12), et, body)
        elif kind == "eth":
            et = {"vlan": pkt.ET_VLAN, "ipv4": pkt.ET_IPV4, "ipv6": pkt.ET_IPV6}.get(inner, 0x0806)
            body = pkt.eth(pkt.rand_bytes(rng, 6), pkt.rand_bytes(rng, 6), et, body)
    frame = body
    starts = [s for (_, s) in [l for l in pkt.decode(frame) if l[0] not in ("error", "malformed")]]
    return frame, starts


def path_expr(var, stack, depth):
    return var + "".join("." + k for k in stack[:depth + 1])


def text_forms(rng, kind, raw):
    """a standard textual spelling of the address"""
    if kind == "mac":
        t = ":".join(rng.choice(["%02x", "%02X"]) % b for b in raw)
        return t
    if kind == "ip4":
        return ".".join(str(b) for b in raw)
    import ipaddress
    a = ipaddress.IPv6Address(raw)
    groups = ["%x" % int(g, 16) for g in a.exploded.split(":")]
    zero_runs = [(i, j) for i in range(8) for j in range(i + 1, 9) if all(g == "0" for g in groups[i:j])]
    if zero_runs and rng.random() < 0.7:
        # "::" standing for one or more zero groups, at the start, in the middle or at the end (RFC 4291 section 2.2)
        i, j = rng.choice(zero_runs)
        return ":".join(groups[:i]) + "::" + ":".join(groups[j:])
    return rng.choice([a.exploded, a.exploded.upper(), ":".join(groups)])


def assignment_value(rng, kind, name, width, fk, mode):
    """-> (source text of the value, expected stored integer / address bytes / bool, class)"""
    if fk in ("mac", "ip4", "ip6"):
        raw = pkt.rand_bytes(rng, width // 8)
        if fk == "ip6" and rng.random() < 0.5:
            # addresses with a run of 1-8 zero groups somewhere
            i = rng.randrange(8)
            j = rng.randint(i + 1, 8)
            raw = raw[:2 * i] + bytes(2 * (j - i)) + raw[2 * j:]
        if mode == "invalid":
            bad = rng.choice(['"zz"', "5", "null", '""', '"1:2"', '"1.2.3"', '"300.1.1.1"', '"1:2:3:4:5:6:7:8:9"', "[1]", '"gg:00:00:00:00:00"'])
            return bad, None, "invalid"
        return lit(text_forms(rng, fk, raw)), (fk, raw), "valid"
    if fk == "bool":
        if mode == "invalid":
            return rng.choice(["1", "0", '"true"', "null"]), None, "invalid"
        b = rng.random() < 0.5
        return ("true" if b else "false"), b, "valid"
    if mode == "invalid":
        v = rng.choice([-1, 1 << width, (1 << width) + 1, (1 << 63) - 1, -(1 << 63), (1 << width) * 3 + 2, -(1 << (width - 1)) if width > 1 else -2])
        if rng.random() < 0.3:
            return rng.choice(['"5"', "1.5", "null", "true", "[1]"]), None, "invalid-kind"
        return lit(v), v, "out-of-range"
    v = rng.choice([0, 1, (1 << width) - 1, 1 << (width - 1), rng.getrandbits(width), rng.getrandbits(width)])
    return lit(v), v, "valid"


def run(chk):
    rng = chk.rng
    quick = chk.tier == "quick"
    chk.rule = ("every writable property of every layer x in-range values (boundaries + random%s) and invalid values (-1, 2^w, 2^w+1, "
                "2^63-1, wrong kinds, malformed address texts) x random frames over 12 layer stacks; sequences of 2-6 assignments on "
                "one packet followed by a write and a re-read; distinct = distinct (layer, property, value class, outcome)"
                % ("" if quick else "; all values for fields <= 12 bits"))
    chk.assumptions = ["an invalid value may be rejected with a runtime error or stored reduced to the field width (both allowed by the property)",
                       "the read-back after re-parsing is skipped when the new value makes the layer unparseable (IHL / data offset below 5 or beyond the capture)"]
    chk.floor = 900
    chk.rule += '; plus sequences that finally re-type an outer layer, rejected assignments checked for an unchanged packet through the end filter, the inner layer read for the first time after the assignment, IPv6 headers with a damaged version nibble, the filter-mode copies of a packet selected before and after the assignment, IPv6 texts with :: for 1-8 zero groups, assignments next to a cut or malformed inner layer that has been looked at'
    work = core.scratch_dir()
    try:
        jobs = []
        props = []
        for kind, fields in pkt.FIELDS.items():
            for name, (off, width, fk) in fields.items():
                if (kind, name) in pkt.READONLY:
                    continue
                props.append((kind, name, off, width, fk))
        reps = 8 if quick else 40
        for kind, name, off, width, fk in props:
            modes = ["valid"] * reps + ["invalid"] * max(2, reps // 2)
            vals = []
            if not quick and width <= 12 and fk == "int":
                vals = [(lit(v), v, "valid") for v in range(1 << width)]
            for mode in modes:
                vals.append(assignment_value(rng, kind, name, width, fk, mode))
            for (vsrc, vexp, vcls) in vals:
                stack = rng.choice([s for s in STACKS if kind in s])
                depth = stack.index(kind) if kind != "vlan" else rng.choice([i for i, k in enumerate(stack) if k == "vlan"])
                jobs.append((stack, depth, [(kind, name, off, width, fk, vsrc, vexp, vcls)]))
        # sequences of assignments
        for _ in range(150 if quick else 4000):
            stack = rng.choice(STACKS)
            seq = []
            for _ in range(rng.randint(2, 6)):
                d = rng.randrange(len(stack))
                kind = stack[d]
                cands = [p for p in props if p[0] == kind and p[1] not in ("ihl", "dataoff", "len", "type", "proto", "nextheader") or (p[0] == kind == "udp")]
                cands = [p for p in cands if p[0] == kind]
                if not cands:
                    continue
                k, name, off, width, fk = rng.choice(cands)
                vsrc, vexp, vcls = assignment_value(rng, k, name, width, fk, "valid")
                seq.append((d, (k, name, off, width, fk, vsrc, vexp, vcls)))
            if seq and rng.random() < 0.3:
                # finally re-type an outer layer: the edits made to the layers inside it must survive in the written bytes
                dmax = max(d for d, _ in seq)
                outer = [d for d in range(dmax) if stack[d] in ("eth", "vlan", "ipv4", "ipv6")]
                if outer:
                    d = rng.choice(outer)
                    nm = {"eth": "type", "vlan": "type", "ipv4": "proto", "ipv6": "nextheader"}[stack[d]]
                    pr = [p for p in props if p[0] == stack[d] and p[1] == nm]
                    if pr:
                        k, name, off, width, fk = pr[0]
                        v = rng.choice([0x88B5, 0x0806, 0xFFFF, 1, 0]) & ((1 << width) - 1)
                        seq.append((d, (k, name, off, width, fk, lit(v), v, "valid")))
            if seq:
                jobs.append((stack, None, seq))
        cases = []
        meta = {}
        for ji, (stack, depth, asg) in enumerate(jobs):
            frame, starts = build_stack(rng, stack)
            if len(starts) != len(stack):
                continue
            inp = os.path.join(work, "i%d.pcap" % ji)
            outp = os.path.join(work, "o%d.pcap" % ji)
            with open(inp, "wb") as f:
                f.write(pkt.pcap_file([(11, 22, frame)]))
            lines = ["let __o = []; let p = pcap_read_next(pcap_open(%s));" % lit(inp)]
            plan = []
            if depth is not None:
                seq = [(depth, asg[0])]
            else:
                seq = asg
            touched = sorted(set(d for d, _ in seq))
            for d in touched:
                lines.append("let L%d = %s;" % (d, path_expr("p", stack, d)))

            def all_props(d):
                kind = stack[d]
                return [n for n in pkt.FIELDS[kind].keys()]
            for d in touched:
                lines.append("push(__o, [%s]);" % ", ".join("L%d.%s" % (d, n) for n in all_props(d)))
            for d, (kind, name, off, width, fk, vsrc, vexp, vcls) in seq:
                lines.append("push(__o, L%d.%s = %s);" % (d, name, vsrc))
                lines.append("push(__o, L%d.%s);" % (d, name))
            for d in touched:
                lines.append("push(__o, [%s]);" % ", ".join("L%d.%s" % (d, n) for n in all_props(d)))
            # before the packet is written: look at the layers through every accessor their parents have, matching or not
            # (what a mismatching accessor returns is unspecified; that it leaves the packet alone is not)
            SIB = {"eth": ("ipv4", "ipv6", "vlan"), "vlan": ("ipv4", "ipv6", "vlan"), "ipv4": ("udp", "tcp", "ipv6"), "ipv6": ("udp", "tcp")}
            if ji % 3 == 0:
                for d in touched:
                    if d > 0 and stack[d - 1] in SIB:
                        lines.append(" ".join("%s.%s;" % (path_expr("p", stack, d - 1), acc) for acc in SIB[stack[d - 1]]))
            lines.append("let o = pcap_open(%s, \"w\"); pcap_write(o, p); push(__o, \"written\");" % lit(outp))
            inner_d = None
            if depth is not None and depth + 1 < len(stack) and asg[0][1] not in ("type", "proto", "nextheader"):
                # the layer inside the assigned one, looked at for the first time only now: it reads as in an untouched copy
                inner_d = depth + 1
                iprops = [n for n in pkt.FIELDS[stack[inner_d]].keys()]
                lines.append("let ref = pcap_read_next(pcap_open(%s)); push(__o, [%s]); push(__o, [%s]);" % (
                    lit(inp), ", ".join("%s.%s" % (path_expr("ref", stack, inner_d), n) for n in iprops),
                    ", ".join("%s.%s" % (path_expr("p", stack, inner_d), n) for n in iprops)))
            cid = "a%d" % ji
            cases.append(Case(cid, "\n".join(lines), {"globals": "__o", "steps": 200000}))
            meta[cid] = (stack, starts, frame, seq, touched, outp, inner_d)
        res = core.run_cases(cases)
        # second pass: re-read the written files
        accepted_jobs = []
        cases2 = []
        verdicts = {}
        for cid, (stack, starts, frame, seq, touched, outp, inner_d) in meta.items():
            r = res.get(cid)
            if r is None:
                chk.inconc("missing result")
                continue
            oc = r.get("outcome")
            single = len(seq) == 1
            d0, (kind, name, off, width, fk, vsrc, vexp, vcls) = seq[0]
            tag = (kind, name, vcls if single else "sequence")
            if oc == "panic":
                chk.violation("panic|" + core.panic_site_sig(r["panic"]["loc"], r["panic"]["msg"]), "assignment panics: %s.%s = %s" % (kind, name, vsrc),
                              {"src": next(c.src for c in cases if c.id == cid)})
                continue
            if oc == "rt_error":
                chk.observed(tag + ("rejected",))
                if single and vcls == "valid":
                    chk.violation("valid-rejected|%s.%s" % (kind, name), "%s.%s = %s is rejected: %s" % (kind, name, vsrc, r["rt"]["msg"]),
                                  {"frame_hex": frame.hex(), "value": vsrc})
                elif not single:
                    chk.violation("valid-rejected|sequence", "a sequence of in-range assignments is rejected: %s" % r["rt"]["msg"],
                                  {"src": next(c.src for c in cases if c.id == cid)})
                continue
            if oc != "ok":
                chk.inconc("outcome %s" % oc)
                continue
            obs = canon_dump(r["globals"]["__o"])[1]
            nt = len(touched)
            before = obs[:nt]
            asg_obs = obs[nt:nt + 2 * len(seq)]
            after = obs[nt + 2 * len(seq):2 * nt + 2 * len(seq)]
            try:
                hdr, recs, _ = pkt.parse_pcap(open(outp, "rb").read())
                written = recs[0][4] if recs else None
                rec_ok = recs and recs[0][:4] == (11, 22, len(frame), len(frame))
            except OSError:
                written = None
                rec_ok = False
            # expected final field values per (layer depth, name)
            final = {}
            for d, (k, nme, off_, w_, fk_, vs_, ve_, vc_) in seq:
                if isinstance(ve_, int) and not isinstance(ve_, bool):
                    final[(d, nme)] = ("i", ve_ & ((1 << w_) - 1))
                elif isinstance(ve_, bool):
                    final[(d, nme)] = ("bool", ve_)
                elif ve_ is None:
                    final[(d, nme)] = None     # invalid kind accepted?! judged below
                else:
                    final[(d, nme)] = ve_
                if k == "tcp" and nme in ("dataoff", "len"):
                    final[(d, "dataoff")] = final[(d, nme)]
                    final[(d, "len")] = final[(d, nme)]
            bad = None
            # an invalid kind that was accepted silently
            for (d, nme), fv in final.items():
                if fv is None:
                    bad = "a value of the wrong kind (%s) was accepted by %s.%s" % (vsrc, stack[d], nme)
            # (a) read-back right after each assignment (the last assignment to a field decides)
            if not bad:
                for i, (d, (k, nme, off_, w_, fk_, vs_, ve_, vc_)) in enumerate(seq):
                    got = asg_obs[2 * i + 1]
                    later = any(dd == d and (x[1] == nme or (k == "tcp" and {x[1], nme} <= {"dataoff", "len"})) for dd, x in seq[i + 1:])
                    want = final[(d, nme)] if not later else None
                    if want is None:
                        continue
                    ok = (tcp_flags_ok(want[1], got) if (k == "tcp" and nme == "flags") else
                          (matches(want, got) if want[0] in ("mac", "ip4", "ip6") else got == want))
                    if not ok:
                        bad = "%s.%s reads back %s after assigning %s" % (k, nme, show(got), vs_)
                        break
            # (b) every other property unchanged, (c) bytes
            if not bad:
                for ti, d in enumerate(touched):
                    names = list(pkt.FIELDS[stack[d]].keys())
                    for nme, b4, af in zip(names, before[ti][1], after[ti][1]):
                        if (d, nme) in final:
                            continue
                        if b4 != af:
                            bad = "%s.%s changed from %s to %s although it was not assigned" % (stack[d], nme, show(b4), show(af))
                            break
                    if bad:
                        break
            if not bad:
                if written is None or not rec_ok:
                    bad = "the packet could not be written / its record header changed"
                elif len(written) != len(frame):
                    bad = "the written packet has %d bytes, the captured one %d" % (len(written), len(frame))
                else:
                    exp = bytearray(frame)
                    for d, (k, nme, off_, w_, fk_, vs_, ve_, vc_) in seq:
                        fv = final[(d, nme)]
                        st = starts[d]
                        nbytes = (off_ % 8 + w_ + 7) // 8
                        first = st + off_ // 8
                        cur = int.from_bytes(exp[first:first + nbytes], "big")
                        shift = nbytes * 8 - (off_ % 8) - w_
                        mask = ((1 << w_) - 1) << shift
                        if fv[0] == "i":
                            val = fv[1]
                        elif fv[0] == "bool":
                            val = 1 if fv[1] else 0
                        else:
                            val = int.from_bytes(fv[1], "big")
                        if k == "tcp" and nme == "flags":
                            # whichever of the accepted widths the implementation uses, the bits outside it must stay
                            got_bits = (int.from_bytes(written[first:first + nbytes], "big") & mask) >> shift
                            if got_bits not in ((val & 0xFF) | (((cur & mask) >> shift) & 0xF00), (val & 0x1FF) | (((cur & mask) >> shift) & 0xE00), val & 0xFFF):
                                bad = "tcp.flags holds %#x in the written bytes after assigning %#x" % (got_bits, val)
                            val = got_bits
                        cur = (cur & ~mask) | ((val << shift) & mask)
                        exp[first:first + nbytes] = cur.to_bytes(nbytes, "big")
                    if not bad and bytes(exp) != written:
                        k_ = next(i for i in range(len(frame)) if exp[i] != written[i])
                        bad = "written bytes differ from the expected ones at offset %d (layer starts %s): wrote %s, expected %s" % (
                            k_, starts, written[max(0, k_ - 2):k_ + 6].hex(), bytes(exp)[max(0, k_ - 2):k_ + 6].hex())
            if not bad and inner_d is not None:
                tail = obs[2 * nt + 2 * len(seq) + 1:]
                if len(tail) == 2 and tail[0] != tail[1]:
                    names = list(pkt.FIELDS[stack[inner_d]].keys())
                    diff = [n for n, x, y in zip(names, tail[0][1], tail[1][1]) if x != y]
                    bad = "after the assignment the %s layer inside, read for the first time, differs from an untouched copy of the packet in %s" % (stack[inner_d], diff)
            chk.observed(tag + ("stored",))
            if len(chk.samples) < 10 and hash(cid) % 50 == 0:
                chk.sample({"stack": stack, "assignments": ["%s.%s = %s" % (x[0], x[1], x[5]) for _, x in seq], "outcome": oc})
            if bad:
                sig = "assign|%s.%s|%s" % (kind, name, vcls) if single else "assign|sequence|" + "+".join(sorted(set(x[0] for _, x in seq)))
                chk.violation(sig, "%s: %s" % ("; ".join("%s.%s = %s" % (x[0], x[1], x[5]) for _, x in seq), bad),
                              {"frame_hex": frame.hex(), "written_hex": written.hex() if written else None, "stack": stack,
                               "src": next(c.src for c in cases if c.id == cid)})
                continue
            if written is not None:
                accepted_jobs.append((cid, stack, seq, frame, written))
            # (d) re-read after re-parsing (not when the sequence re-typed an outer layer: reading an inner layer by a name that
            # contradicts the new type is unspecified)
            retyped = any(x[1] in ("type", "proto", "nextheader") and any(d2 > d for d2, _ in seq) for d, x in seq)
            if written is not None and not retyped:
                from . import pktscript
                ok_layers = True
                cur = pktscript.parse_layer("eth", written, 0)
                chain = [cur]
                for kk in stack[1:]:
                    if cur == "error":
                        ok_layers = False
                        break
                    cur = pktscript.parse_layer(kk, written, cur.payload_off())
                    chain.append(cur)
                if ok_layers and cur != "error":
                    reads = []
                    for d, x in seq:
                        reads.append("%s.%s" % (path_expr("q", stack, d), x[1]))
                    src = "let __o = []; let q = pcap_read_next(pcap_open(%s)); push(__o, [%s]);" % (lit(outp), ", ".join(reads))
                    cases2.append(Case("r" + cid, src, {"globals": "__o", "steps": 100000}))
                    verdicts["r" + cid] = (seq, final, stack, frame, written)
        res2 = core.run_cases(cases2)
        for cid, (seq, final, stack, frame, written) in verdicts.items():
            r = res2.get(cid)
            if r is None or r.get("outcome") != "ok":
                chk.violation("reread-fails|%s" % stack[seq[0][0]], "the written packet cannot be re-read: %s %s" % ((r or {}).get("outcome"), (r or {}).get("rt")),
                              {"written_hex": written.hex(), "stack": stack})
                continue
            got = canon_dump(r["globals"]["__o"])[1][0][1]
            for (d, x), g in zip(seq, got):
                want = final[(d, x[1])]
                ok = (tcp_flags_ok(want[1], g) if (x[0] == "tcp" and x[1] == "flags") else
                      (matches(want, g) if want[0] in ("mac", "ip4", "ip6") else g == want))
                chk.observed((x[0], x[1], "reread"))
                if not ok:
                    chk.violation("reread|%s.%s" % (x[0], x[1]), "%s.%s reads %s after writing and re-opening, assigned %s" % (x[0], x[1], show(g), x[5]),
                                  {"frame_hex": frame.hex(), "written_hex": written.hex()})
                    break
        # ---- the other serialisation: in filter mode the packet is written once per selecting filter. Selected, assigned in an
        # action, selected again: the first copy is the captured frame, every later copy carries the assignments (the bytes
        # judged above), also when the packet was already serialised before the assignment
        step = max(1, len(accepted_jobs) // (50 if quick else 700))
        fscript = os.path.join(work, "fm.p2")
        for n_f, (cid, stack, seq, frame, written) in enumerate(accepted_jobs[::step]):
            ji = int(cid[1:])
            inp = os.path.join(work, "i%d.pcap" % ji)
            asg = " ".join("%s.%s = %s;" % (path_expr("($0)", stack, d), x[1], x[5]) for d, x in seq)
            variant = n_f % 3
            prog = ["@ true\n@ { %s }\n@ true\n" % asg,
                    "@ true\n@ true\n@ { %s }\n@ true\n@ true\n" % asg,
                    "@ { %s }\n@ true\n@ { %s.%s; }\n@ true\n" % (asg, path_expr("($0)", stack, seq[0][0]), seq[0][1][1])][variant]
            n_before = [1, 2, 0][variant]
            n_after = [1, 2, 2][variant]
            with open(fscript, "w") as f:
                f.write(prog)
            with open(inp, "rb") as fi:
                rr = core.run_binary([fscript], stdin_file=fi, release=(n_f % 2 == 1), timeout=30)
            if rr["timeout"]:
                chk.inconc("timeout (filter-mode copies)")
                continue
            if core.crashed(rr):
                chk.violation("crash|filter-copies", "assigning between two selecting filters crashes the interpreter: %s" % rr["err"][-200:].decode("utf-8", "replace"),
                              {"program": prog, "frame_hex": frame.hex()})
                continue
            try:
                _, recs, _ = pkt.parse_pcap(rr["out"])
            except Exception:
                recs = None
            chk.observed(("filter-copies", variant, stack[seq[0][0]], len(seq) > 1))
            chk.count("filter_mode_copies_compared")
            want = [frame] * n_before + [written] * n_after
            got = [r[4] for r in recs] if recs is not None else None
            if got != want:
                k_ = next((i for i in range(min(len(got or []), len(want))) if got[i] != want[i]), None)
                chk.violation("filter-copies|%d" % variant,
                              "filter mode, the packet selected %d time(s) before and %d time(s) after the assignment(s) %s: %s" % (
                                  n_before, n_after, asg, ("copy %d holds %s, expected %s" % (k_ + 1, got[k_].hex()[:160], want[k_].hex()[:160])) if k_ is not None
                                  else "%s copies come out, expected %d (stderr %r)" % (len(got) if got is not None else "unreadable", len(want), rr["err"][-120:])),
                              {"program": prog, "frame_hex": frame.hex(), "expected_after_hex": written.hex()})
        # ---- the layer inside the assigned one is cut short or malformed (and has been looked at, so that an error object
        # sits where a layer would): the written bytes still differ from the captured ones in the assigned field only
        dcases = []
        dmeta = {}
        cand_props = [p_ for p_ in props if p_[4] == "int" and p_[1] not in ("ihl", "dataoff", "len", "type", "proto", "nextheader", "version")]
        for t in range(300 if quick else 4000):
            stack = rng.choice([s_ for s_ in STACKS if len(s_) >= 2])
            stack = stack[:rng.randint(2, len(stack))]     # any layer may be the damaged innermost one
            frame, starts = build_stack(rng, stack)
            if len(starts) != len(stack):
                continue
            inner_kind = stack[-1]
            how = rng.choice(["cut", "cut", "cut-at-start", "bad-length"])
            if how == "cut":
                frame = frame[:starts[-1] + rng.randrange(1, pkt.MINLEN[inner_kind])]
            elif how == "cut-at-start":
                frame = frame[:starts[-1]]
            else:
                if inner_kind not in ("ipv4", "tcp"):
                    continue
                fr = bytearray(frame)
                if inner_kind == "ipv4":
                    fr[starts[-1]] = (fr[starts[-1]] & 0xF0) | rng.choice([0, 1, 4])
                else:
                    fr[starts[-1] + 12] = (fr[starts[-1] + 12] & 0x0F) | (rng.choice([0, 1, 4]) << 4)
                frame = bytes(fr)
            d = len(stack) - 2
            mine = [p_ for p_ in cand_props if p_[0] == stack[d]]
            if not mine:
                continue
            kind, name, off, width, fk = rng.choice(mine)
            v = rng.choice([0, (1 << width) - 1, rng.getrandbits(width)])
            inp = os.path.join(work, "d%d.pcap" % t)
            outp = os.path.join(work, "do%d.pcap" % t)
            with open(inp, "wb") as f:
                f.write(pkt.pcap_file([(11, 22, frame)]))
            look = rng.choice(["L.%s;" % inner_kind, "L.%s; L.%s;" % (inner_kind, inner_kind), "let e = L.%s; is_error(e);" % inner_kind, ""])
            src = ("let __o = []; let p = pcap_read_next(pcap_open(%s)); let L = %s; %s L.%s = %s; push(__o, L.%s); %s "
                   "pcap_write(pcap_open(%s, \"w\"), p); push(__o, \"written\");" % (
                       lit(inp), path_expr("p", stack, d), look,
                       name, lit(v), name, rng.choice(["L.%s;" % inner_kind, ""]), lit(outp)))
            cid = "dm%d" % t
            dcases.append(Case(cid, src, {"globals": "__o", "steps": 100000}))
            dmeta[cid] = (stack, starts, frame, d, kind, name, off, width, v, outp, how, src)
        dres = core.run_cases(dcases)
        for cid, (stack, starts, frame, d, kind, name, off, width, v, outp, how, src) in dmeta.items():
            r = dres.get(cid)
            if r is None:
                chk.inconc("missing result")
                continue
            oc = r.get("outcome")
            if oc == "panic":
                chk.violation("panic|" + core.panic_site_sig(r["panic"]["loc"], r["panic"]["msg"]), "assignment next to a damaged inner layer panics", {"src": src})
                continue
            if oc != "ok":
                chk.violation("damaged-inner|rejected|%s.%s" % (kind, name), "%s.%s = %d next to a %s %s layer ends with %s %s" % (kind, name, v, how, stack[-1], oc, r.get("rt")),
                              {"src": src, "frame_hex": frame.hex()})
                continue
            chk.observed(("damaged-inner", kind, name, stack[-1], how))
            chk.count("assignments_next_to_a_damaged_inner_layer")
            try:
                _, recs, _ = pkt.parse_pcap(open(outp, "rb").read())
                written = recs[0][4] if recs else None
            except OSError:
                written = None
            exp = bytearray(frame)
            st = starts[d]
            nbytes = (off % 8 + width + 7) // 8
            first = st + off // 8
            cur = int.from_bytes(exp[first:first + nbytes], "big")
            shift = nbytes * 8 - (off % 8) - width
            mask = ((1 << width) - 1) << shift
            cur = (cur & ~mask) | ((v << shift) & mask)
            exp[first:first + nbytes] = cur.to_bytes(nbytes, "big")
            got_back = canon_dump(r["globals"]["__o"])[1][0]
            if kind == "tcp" and name == "flags":
                continue
            if written != bytes(exp) or got_back != ("i", v):
                chk.violation("damaged-inner|%s.%s|%s" % (kind, name, how),
                              "%s.%s = %d with a %s %s layer inside: reads back %s, wrote %s, expected %s" % (
                                  kind, name, v, how, stack[-1], show(got_back), written.hex()[:200] if written is not None else None, bytes(exp).hex()[:200]),
                              {"src": src, "frame_hex": frame.hex(), "written_hex": written.hex() if written else None})
        # ---- an assignment that is rejected with a runtime error leaves the packet unchanged: the packet is looked at
        # afterwards through the end filter, which still runs after a failed action
        BAD = {"mac": ["aa:bb:cc:dd:ee:gg", "aa:bb:cc:dd:ee", "aa:bb:cc:dd:ee:ff:00", "aa:bb:cc:dd:ee:1ff", "aa:bb:cc:dd:zz:ff", "aa:bb:cc:dd:ee:", "11-22-33-44-55-66", ""],
               "ip4": ["192.168.7.256", "172.16.5.x", "10.0.0", "1.2.3.4.5", "10.999.1.1", "10.0.-1.1", "1.2..4", "10.0.0.1.", "a.b.c.d", ""],
               "ip6": ["1:2:3:4:5:6:7:zz", "1:2:3:4:5:6:7:8:9", "1::2::3", "12345::1", "1:2:3:4:5:6:7", "fe80::1::", "::g", "1:2:3:4:5:6:7:8:", "2001:db8::10000", ""]}
        n_bad = 0
        for kind, name, off, width, fk in props:
            stack = next(st for st in STACKS if kind in st and (fk != "ip6" or True))
            d = stack.index(kind)
            if fk in BAD:
                values = [lit(t) for t in BAD[fk]]
            elif fk == "int":
                values = [lit(-1), lit(1 << width), lit((1 << 63) - 1), "\"5\"", "null"]
            else:
                values = ["1", "\"true\"", "null"]
            if quick:
                values = values[:6] if fk in BAD else values[:2]
            for vsrc in values:
                frame, starts = build_stack(rng, stack)
                if len(starts) != len(stack):
                    continue
                inp = os.path.join(work, "bad.pcap")
                outp = os.path.join(work, "bad-out.pcap")
                script = os.path.join(work, "bad.p2")
                if os.path.exists(outp):
                    os.unlink(outp)
                with open(inp, "wb") as f:
                    f.write(pkt.pcap_file([(11, 22, frame)]))
                with open(script, "w") as f:
                    f.write("let saved = null;\n@ true { saved = $0; %s.%s = %s; eprintln(\"ACCEPTED\"); }\n@ end { pcap_write(pcap_open(%s, \"w\"), saved); }\n" % (
                        path_expr("($0)", stack, d), name, vsrc, lit(outp)))
                with open(inp, "rb") as fi:
                    rr = core.run_binary(["-s", script], stdin_file=fi, release=(n_bad % 2 == 1), timeout=30)
                n_bad += 1
                if rr["timeout"]:
                    chk.inconc("timeout")
                    continue
                err = rr["err"].decode("utf-8", "replace")
                if core.crashed(rr):
                    chk.violation("crash|%s.%s" % (kind, name), "%s.%s = %s crashes the interpreter: %s" % (kind, name, vsrc, err[-200:]), {"frame_hex": frame.hex()})
                    continue
                if "ACCEPTED" in err or "Runtime error" not in err:
                    chk.observed((kind, name, "invalid-accepted-or-reduced"))
                    chk.count("invalid_values_stored_reduced_or_accepted")
                    continue      # stored reduced: judged by the value sweeps above
                chk.observed((kind, name, "invalid-rejected"))
                chk.count("rejected_assignments_checked_for_an_unchanged_packet")
                try:
                    hdr, recs, _ = pkt.parse_pcap(open(outp, "rb").read())
                    written = recs[0][4] if recs else None
                except OSError:
                    written = None
                if written is None:
                    chk.inconc("end filter did not write the packet")
                    continue
                if written != frame:
                    k_ = next((i for i in range(min(len(frame), len(written))) if frame[i] != written[i]), min(len(frame), len(written)))
                    chk.violation("rejected-but-changed|%s.%s" % (kind, name),
                                  "%s.%s = %s is rejected with a runtime error, but the packet changed at offset %d (layer starts %s): %s -> %s" % (
                                      kind, name, vsrc, k_, starts, frame[max(0, k_ - 2):k_ + 6].hex(), written[max(0, k_ - 2):k_ + 6].hex()),
                                  {"frame_hex": frame.hex(), "written_hex": written.hex(), "value": vsrc})
    finally:
        shutil.rmtree(work, ignore_errors=True)
