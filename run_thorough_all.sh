#!/bin/bash
# helper for background sweeps: runs the thorough tier of the given checks one after another
for c in "$@"; do
  echo "=== $c"; python3 vf.py check $c --tier thorough 2>&1 | grep -vE "^WARNING conda" | tail -25
done
