#!/usr/bin/env python3
"""Regression of the repaired defects (helper, not part of any registered check).

A `fixed:` entry of known_findings.json suppresses nothing: if the defect ever returns, the owning check
must report it again. This tool makes the defect return - `git revert -n <fix commit>` on a scratch
worktree of /repo's HEAD (outside /repo and /verif) - and runs the quick tier of the owning check(s)
against that tree through the P2SH_SRC / VF_BUILD / VF_OUT overrides.

  reverttool.py run [LANE k n]   revert every fix commit (or every n-th starting at k), print one line per (commit, property)
  reverttool.py table            markdown table from reverts.json
"""
import json
import os
import re
import shutil
import subprocess
import sys

VERIF = os.path.dirname(os.path.abspath(__file__))
OUT = os.path.join(VERIF, "reverts.json")


def sh(cmd, cwd=None, timeout=3600, env=None):
    r = subprocess.run(cmd, shell=True, cwd=cwd, stdout=subprocess.PIPE, stderr=subprocess.STDOUT, text=True, timeout=timeout, env=env)
    return r.returncode, r.stdout


def entries():
    k = json.load(open(os.path.join(VERIF, "known_findings.json")))
    by_commit = {}
    for line in k["fixed"]:
        m = re.match(r"fixed: property=(C\d\d) ([0-9a-f]{7,}) (.*)", line)
        if not m:
            continue
        by_commit.setdefault(m.group(2), []).append((m.group(1), m.group(3)))
    return by_commit


def run(lane, k, n):
    scratch = "/tmp/p2sh-revert" + lane
    wt = os.path.join(scratch, "wt")
    res = {}
    commits = sorted(entries().items())
    only = os.environ.get("REVERT_ONLY", "").split()
    for i, (commit, props) in enumerate(commits):
        if i % n != k or (only and commit not in only):
            continue
        sh("git -C /repo worktree remove --force %s" % wt)
        shutil.rmtree(wt, ignore_errors=True)
        os.makedirs(scratch, exist_ok=True)
        rc, out = sh("git -C /repo worktree add --detach %s HEAD" % wt)
        assert rc == 0, out
        try:
            shutil.copy("/repo/Cargo.lock", wt)
            rc, out = sh("git -c user.name=x -c user.email=x@x revert -n %s" % commit, cwd=wt)
            if rc != 0:
                # later fixes touch the same lines: take the pre-fix side of the conflicting hunks
                sh("git reset -q --hard HEAD", cwd=wt)
                rc, out = sh("git -c user.name=x -c user.email=x@x revert -n -X theirs %s" % commit, cwd=wt)
                if rc == 0:
                    rc, out = sh("cargo build --offline 2>&1 | tail -3", cwd=wt, env=dict(os.environ, CARGO_NET_OFFLINE="true", CARGO_TARGET_DIR=os.path.join(scratch, "cargo-tmp")))
                    rc = 0 if "Finished" in out else 1
            if rc != 0:
                for p, what in props:
                    res["%s/%s" % (commit, p)] = {"status": "cannot be reverted mechanically: later fixes build on its lines (not run)", "what": what}
                    print("%s %s: revert does not apply cleanly" % (commit, p), flush=True)
                continue
            env = dict(os.environ, P2SH_SRC=wt, VF_BUILD=os.path.join(scratch, "build"), VF_OUT=os.path.join(scratch, "out"))
            for p, what in props:
                rc, out = sh("python3 vf.py check %s --tier quick" % p, cwd=VERIF, env=env)
                lines = out.splitlines()
                viol = [l for l in lines if l.startswith("VIOLATION")]
                first = ""
                for j, l in enumerate(lines):
                    if l.startswith("VIOLATION"):
                        first = " | ".join(x.strip() for x in lines[j + 1:j + 3])[:260]
                        break
                res["%s/%s" % (commit, p)] = {"status": "reported again" if rc == 1 and viol else ("NOT reported" if rc == 0 else "exit %s" % rc),
                                               "violations": len(viol), "first": first, "what": what}
                print("%s %s: exit %s, %d violation line(s) %s" % (commit, p, rc, len(viol), first[:160]), flush=True)
        finally:
            sh("git -C /repo worktree remove --force %s" % wt)
            shutil.rmtree(wt, ignore_errors=True)
    part = OUT + ".part" + lane
    json.dump(res, open(part, "w"), indent=1)


def table():
    res = json.load(open(OUT))
    print("| fix commit | property | defect | with the fix reverted, quick tier |")
    print("|------------|----------|--------|-----------------------------------|")
    for key in sorted(res, key=lambda x: (x.split("/")[1], x)):
        commit, p = key.split("/")
        r = res[key]
        sig = r.get("first", "").split("sig:")[-1].strip()[:60].replace("|", "¦") if "sig:" in r.get("first", "") else ""
        print("| %s | %s | %s | %s%s |" % (commit, p, r["what"][:150].replace("|", "¦"), "**" + r["status"] + "**" if r["status"] == "reported again" else r["status"],
                                           (" (`%s`)" % sig) if sig else ""))


if __name__ == "__main__":
    if sys.argv[1] == "table":
        table()
    elif sys.argv[1] == "merge":
        res = {}
        for f in sorted(os.listdir(VERIF)):
            if f.startswith("reverts.json.part"):
                res.update(json.load(open(os.path.join(VERIF, f))))
                os.unlink(os.path.join(VERIF, f))
        if os.path.exists(OUT):
            old = json.load(open(OUT))
            old.update(res)
            res = old
        json.dump(res, open(OUT, "w"), indent=1)
        print(len(res), "entries")
    else:
        lane, k, n = (sys.argv[3], int(sys.argv[4]), int(sys.argv[5])) if len(sys.argv) > 2 else ("", 0, 1)
        run(lane, k, n)
