#!/bin/bash
# helper (not registered): sweep.sh <tier> <seed>...  - every check at the given seeds, one summary line per run
tier=$1; shift
for seed in "$@"; do
  for c in C01 C02 C03 C04 C05 C06 C07 C08 C09 C10 C11 C12 C13 C14 C15 C16 C17 C18 C19 C20 C21 C22 C23 C24; do
    VERIF_SEED=$seed python3 /verif/vf.py check $c --tier $tier > /tmp/sweep-$c-$seed-$tier.out 2>&1
    rc=$?
    echo "rc=$rc $(grep -E "^$c $tier" /tmp/sweep-$c-$seed-$tier.out | cut -c1-170) $(grep -c '^VIOLATION' /tmp/sweep-$c-$seed-$tier.out) violation line(s)"
  done
done
