#!/usr/bin/env python3
"""Orchestrator for the p2sh runtime-monitoring checks.

  python3 vf.py setup                     build the probe and the real binary (dev + release), hooks on
  python3 vf.py check C07 --tier quick    run one check (VERIF_SEED seeds every random choice)
  python3 vf.py replay <path>             re-execute the case stored in a replay file
"""
import argparse
import importlib
import json
import os
import sys
import traceback

sys.path.insert(0, os.path.dirname(os.path.abspath(__file__)))
from vflib import core  # noqa: E402


def cmd_setup(_a):
    core.build_probe()
    core.build_p2sh(False)
    core.build_p2sh(True)
    print("setup ok: %s %s %s" % (core.PROBE_BIN, core.P2SH_DEV, core.P2SH_REL))
    return 0


def cmd_check(a):
    pid = a.property.upper()
    tier = a.tier or os.environ.get("VERIF_TIER") or "quick"
    if tier not in ("quick", "thorough"):
        tier = "quick"
    try:
        seed = int(os.environ.get("VERIF_SEED", "0"))
    except ValueError:
        seed = 0
    mod = importlib.import_module("vflib.%s" % pid.lower())
    chk = core.Check(pid, tier, seed, getattr(mod, "LEVEL", "exploration"))
    try:
        core.build_probe()
        core.build_p2sh(False)
        core.build_p2sh(True)
    except core.BuildError as e:
        print(str(e))
        print("INCONCLUSIVE property=%s the repository does not build" % pid)
        return 2
    try:
        mod.run(chk)
    except Exception:
        traceback.print_exc()
        print("INCONCLUSIVE property=%s harness error" % pid)
        # still record what was seen so far
        try:
            chk.inconc("harness_error")
            chk.finish()
        except Exception:
            pass
        return 2
    return chk.finish()


def cmd_replay(a):
    with open(a.path) as f:
        rep = json.load(f)
    pid = rep["property"]
    mod = importlib.import_module("vflib.%s" % pid.lower())
    core.build_probe()
    core.build_p2sh(False)
    core.build_p2sh(True)
    if hasattr(mod, "replay"):
        return mod.replay(rep)
    print(json.dumps(rep, indent=1, ensure_ascii=False))
    print("(no automatic replay for this property; the case above is self-contained)")
    return 0


def main():
    ap = argparse.ArgumentParser()
    sub = ap.add_subparsers(dest="cmd", required=True)
    sub.add_parser("setup")
    c = sub.add_parser("check")
    c.add_argument("property")
    c.add_argument("--tier", default=None)
    r = sub.add_parser("replay")
    r.add_argument("path")
    a = ap.parse_args()
    rc = {"setup": cmd_setup, "check": cmd_check, "replay": cmd_replay}[a.cmd](a)
    sys.exit(rc)


if __name__ == "__main__":
    main()
