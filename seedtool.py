#!/usr/bin/env python3
"""Seeded-change bookkeeping (used while building the checks; not part of any registered check).

  seedtool.py verify <src_dir> <name> <property> <needs...>
        confirm in a scratch worktree (outside /repo and /verif) that the change applies, builds, keeps the
        pinned tests green, and that its demonstration fails with the change and passes without it; then
        store it as /verif/seeded/<name>/ {patch.diff, demo.*, notes.md, meta.json}
  seedtool.py run <name> [quick|thorough] [CHECK ...]
        apply the stored change to /repo, run the owning check(s), undo the change; report detection
"""
import json
import os
import shutil
import subprocess
import sys
import tempfile

VERIF = os.path.dirname(os.path.abspath(__file__))
SEEDED = os.path.join(VERIF, "seeded")


def sh(cmd, cwd=None, timeout=1800, env=None):
    r = subprocess.run(cmd, shell=True, cwd=cwd, stdout=subprocess.PIPE, stderr=subprocess.STDOUT, text=True, timeout=timeout, env=env)
    return r.returncode, r.stdout


def verify(src, name, prop, needs):
    wt = tempfile.mkdtemp(prefix="p2sh-seed-")
    os.rmdir(wt)
    rc, out = sh("git -C /repo worktree add --detach %s HEAD" % wt)
    assert rc == 0, out
    try:
        shutil.copy("/repo/Cargo.lock", wt)
        # one shared target directory outside /repo and /verif keeps the dependency builds warm between seeds
        tdir = "/tmp/p2sh-seed-target" + os.environ.get("SEED_LANE", "")
        env = dict(os.environ, CARGO_NET_OFFLINE="true", CARGO_TARGET_DIR=tdir)
        benv = dict(env, RUSTFLAGS="--cfg p2sh_verif") if os.environ.get("SEED_HOOKS") else env   # demos that drive the REPL need the scripted line source
        rc, out = sh("cargo build --offline 2>&1 | tail -3", cwd=wt, env=benv)
        base_bin = os.path.join(wt, "base-p2sh")
        shutil.copy(os.path.join(tdir, "debug/p2sh"), base_bin)
        rc, out = sh("git apply %s" % os.path.join(src, "patch.diff"), cwd=wt)
        assert rc == 0, "patch does not apply: " + out
        rc, out = sh("cargo build --offline 2>&1 | tail -3", cwd=wt, env=benv)
        assert rc == 0 and "error" not in out.lower().split("warning")[0], "build failed: " + out
        patched_bin = os.path.join(wt, "patched-p2sh")
        shutil.copy(os.path.join(tdir, "debug/p2sh"), patched_bin)
        rc, out = sh("cargo test --offline 2>&1 | grep 'test result'", cwd=wt, env=env)
        tests_ok = "184 passed; 0 failed" in out
        if not tests_ok:
            # the two tests known to fail on their own now and then (rand bound, shared /tmp file): one more try
            rc, out = sh("cargo test --offline 2>&1 | grep 'test result'", cwd=wt, env=env)
            tests_ok = "184 passed; 0 failed" in out
        demo = os.path.join(src, "demo.sh")
        rc_patched, out_p = sh("bash %s %s" % (demo, patched_bin), cwd=src, timeout=120)
        rc_base, out_b = sh("bash %s %s" % (demo, base_bin), cwd=src, timeout=120)
        ok = tests_ok and rc_patched != 0 and rc_base == 0
        print("tests: %s | demo with change: rc=%s | demo without: rc=%s  => %s" % (out.strip(), rc_patched, rc_base, "CONFIRMED" if ok else "REJECTED"))
        if not ok:
            print(out_p[-500:])
            print(out_b[-500:])
            return 1
        dst = os.path.join(SEEDED, name)
        os.makedirs(dst, exist_ok=True)
        for f in os.listdir(src):
            p = os.path.join(src, f)
            if os.path.isfile(p) and os.path.getsize(p) < 2_000_000:
                shutil.copy(p, dst)
        meta = {"name": name, "property": prop, "needs_to_manifest": " ".join(needs),
                "confirmed": {"applies_to": subprocess.run("git -C /repo rev-parse --short HEAD", shell=True, capture_output=True, text=True).stdout.strip(),
                              "cargo_build": "ok", "cargo_test": out.strip(), "demo_with_change_rc": rc_patched, "demo_without_change_rc": rc_base},
                "detection": {}}
        with open(os.path.join(dst, "meta.json"), "w") as f:
            json.dump(meta, f, indent=1)
        return 0
    finally:
        sh("git -C /repo worktree remove --force %s" % wt)
        shutil.rmtree(wt, ignore_errors=True)


SCRATCH = "/tmp/p2sh-seedrun" + os.environ.get("SEED_LANE", "")


def run(name, tier, checks):
    """runs the owning check(s) against a scratch worktree of /repo's HEAD with the change applied
    (same effect as applying it to /repo and undoing it, without disturbing work in /repo)"""
    dst = os.path.join(SEEDED, name)
    meta = json.load(open(os.path.join(dst, "meta.json")))
    checks = checks or [meta["property"]]
    wt = os.path.join(SCRATCH, "wt")
    sh("git -C /repo worktree remove --force %s" % wt)
    shutil.rmtree(wt, ignore_errors=True)
    os.makedirs(SCRATCH, exist_ok=True)
    rc, out = sh("git -C /repo worktree add --detach %s HEAD" % wt)
    assert rc == 0, out
    res = {}
    try:
        shutil.copy("/repo/Cargo.lock", wt)
        rc, out = sh("git apply --3way %s 2>&1 || git apply %s" % (os.path.join(dst, "patch.diff"), os.path.join(dst, "patch.diff")), cwd=wt)
        if rc != 0:
            print("PATCH DOES NOT APPLY to current HEAD: %s" % out[-300:])
            res = {c: {"tier": tier, "error": "patch does not apply to current HEAD"} for c in checks}
        else:
            env = dict(os.environ, P2SH_SRC=wt, VF_BUILD=os.path.join(SCRATCH, "build"), VF_OUT=os.path.join(SCRATCH, "out"))
            for c in checks:
                rc, out = sh("python3 vf.py check %s --tier %s" % (c, tier), cwd=VERIF, timeout=7200, env=env)
                lines = out.splitlines()
                viol = [l for l in lines if l.startswith("VIOLATION")]
                first = ""
                for i, l in enumerate(lines):
                    if l.startswith("VIOLATION"):
                        first = " | ".join(x.strip() for x in lines[i + 1:i + 3])[:300]
                        break
                res[c] = {"tier": tier, "exit": rc, "violations": len(viol), "first": first,
                          "head": subprocess.run("git -C /repo rev-parse --short HEAD", shell=True, capture_output=True, text=True).stdout.strip()}
                print("%s %s on %s: exit %d, %d violation line(s) %s" % (c, tier, name, rc, len(viol), first))
                if rc not in (0, 1):
                    print("\n".join(lines[-8:]))
    finally:
        sh("git -C /repo worktree remove --force %s" % wt)
        shutil.rmtree(wt, ignore_errors=True)
    meta.setdefault("detection", {}).update({"%s/%s" % (c, tier): v for c, v in res.items()})
    with open(os.path.join(dst, "meta.json"), "w") as f:
        json.dump(meta, f, indent=1)
    return 0


def table():
    """markdown table of the stored changes and what the checks reported on them (for DESIGN.md section 12.5)"""
    rows = []
    for name in sorted(os.listdir(SEEDED)):
        mp = os.path.join(SEEDED, name, "meta.json")
        if not os.path.exists(mp):
            continue
        m = json.load(open(mp))
        det = m.get("detection", {})
        cells = []
        for k in sorted(det):
            d = det[k]
            if "error" in d:
                cells.append("%s: %s" % (k, d["error"]))
            else:
                first = d.get("first", "")
                sig = first.split("sig:")[-1].strip() if "sig:" in first else ""
                cells.append("%s: %s%s" % (k, "**caught**" if d.get("exit") == 1 else ("missed" if d.get("exit") == 0 else "exit %s" % d.get("exit")),
                                           (" (`%s`)" % sig[:70].replace("|", "¦")) if sig and d.get("exit") == 1 else ""))
        needs = " ".join(m.get("needs_to_manifest", "").split())[:170].replace("|", "¦")
        hist = m.get("history", "")
        rows.append("| %s | %s | %s | %s%s |" % (name, m.get("property"), needs, "; ".join(cells) or "not run", (" — " + hist) if hist else ""))
    print("| change | property | needs, to manifest | owning check, quick tier |")
    print("|--------|----------|--------------------|--------------------------|")
    print("\n".join(rows))


if __name__ == "__main__":
    if sys.argv[1] == "table":
        table()
        sys.exit(0)
    if sys.argv[1] == "verify":
        sys.exit(verify(sys.argv[2], sys.argv[3], sys.argv[4], sys.argv[5:]))
    if sys.argv[1] == "run":
        tier = "quick"
        rest = sys.argv[3:]
        if rest and rest[0] in ("quick", "thorough"):
            tier = rest[0]
            rest = rest[1:]
        sys.exit(run(sys.argv[2], tier, rest))
